"""Population model -> exchange text.  Layout noise (white space, comments, alternative spellings of the same
value, order of complex parts) is a deterministic function of `layout` (an integer drawn by Hypothesis; 0 = canonical
layout), so that a case is replayable and the layout shrinks towards the canonical one."""
import random


def _value(v, tok):
    t = v[0]
    if t == "i":
        tok(str(v[1]))
    elif t in ("r", "n"):
        tok(v[1])
    elif t == "s":
        tok("'" + v[1] + "'")
    elif t in ("b", "l", "e"):
        tok("." + v[1] + ".")
    elif t == "x":
        tok('"' + v[1] + '"')
    elif t == "ref":
        tok("#%d" % v[1])
    elif t == "null":
        tok("$")
    elif t == "star":
        tok("*")
    elif t == "agg":
        tok("(")
        for i, x in enumerate(v[1]):
            if i:
                tok(",")
            _value(x, tok)
        tok(")")
    elif t == "typed":
        tok(v[1])
        tok("(")
        _value(v[2], tok)
        tok(")")
    else:
        raise AssertionError(v)


def instance_tokens(inst, rnd=None, state=None, shuffle=True, used=None):
    toks = []
    tok = toks.append
    if state:
        tok(state)
    tok("#%d" % inst["id"])
    tok("=")
    parts = list(inst["parts"])
    if inst["complex"]:
        if rnd is not None and rnd.random() < 0.5:
            p2 = list(parts)
            rnd.shuffle(p2)
            if shuffle:
                if used is not None and [x["ent"] for x in p2] != [x["ent"] for x in parts]:
                    used.add("part-order")
                parts = p2
        tok("(")
    for p in parts:
        tok(p["ent"].upper())
        tok("(")
        for i, v in enumerate(p["vals"]):
            if i:
                tok(",")
            _value(v, tok)
        tok(")")
    if inst["complex"]:
        tok(")")
    tok(";")
    return toks


_COMMENTS = ["/* c */", "/**/", "/* #12=FOO('x'); */", "/* ' */", "/* ; ) ( */", "/* multi\nline */", "/* * / */"]


ALL_LAYOUT = frozenset(["ws", "comment-outer", "comment-inner", "part-order"])


def _join(toks, rnd, level, feats=ALL_LAYOUT, used=None):
    """Join tokens of one instance. level 0: no separators (canonical).
    A boundary is *inner* when it lies after the instance's entity keyword or first "(" (up to the terminating ";")."""
    if rnd is None or level == 0:
        return "".join(toks)
    out = []
    depth = 0
    for i, t in enumerate(toks):
        out.append(t)
        if t == "(" or (t[0].isalpha() and i >= 2):
            depth += 1      # never decremented: everything after the entity keyword / first "(" up to ";" is inner
        if i == len(toks) - 1:
            break
        r = rnd.random()
        r2 = rnd.random()
        if r < 0.15 * level:
            ws = rnd.choice([" ", "  ", "\t", "\n", " \n  ", "\r\n"])
            if "ws" in feats:
                out.append(ws)
                if used is not None:
                    used.add("ws")
        elif r < 0.15 * level + 0.04 * level:
            c = rnd.choice(_COMMENTS)
            kind = "comment-inner" if depth > 0 else "comment-outer"
            if kind in feats:
                out.append(c)
                if used is not None:
                    used.add(kind)
            elif used is not None:
                used.add("suppressed:" + kind)
    return "".join(out)


def header_text(h):
    def sl(lst):
        return "(" + ",".join("'" + x + "'" for x in lst) + ")"
    return ("FILE_DESCRIPTION(%s,'%s');\nFILE_NAME('%s','%s',%s,%s,'%s','%s','%s');\nFILE_SCHEMA(('%s'));\n" % (
        sl(h["description"]), h["level"], h["name"], h["time"], sl(h["authors"]), sl(h["orgs"]), h["pre"], h["orig"],
        h["auth"], h["schema"]))


def render(pop, layout=0, states=None, working=False, feats=ALL_LAYOUT, used=None):
    """used: optional set that receives the layout features actually present in the text."""
    rnd = random.Random(layout) if layout else None
    level = 0 if not layout else 1 + (layout % 3)
    head = "STEP_WORKING_SESSION;\n" if working else "ISO-10303-21;\n"
    out = [head, "HEADER;\n", header_text(pop["header"]), "ENDSEC;\n"]
    if rnd and rnd.random() < 0.3:
        out.append("/* between sections */\n")
    out.append("DATA;\n")
    for inst in pop["instances"]:
        st = states.get(inst["id"]) if states else None
        out.append(_join(instance_tokens(inst, rnd, st, "part-order" in feats, used), rnd, level, feats, used))
        out.append("\n" if not rnd or rnd.random() < 0.8 else " ")
    out.append("ENDSEC;\n")
    out.append("END-STEP_WORKING_SESSION;\n" if working else "END-ISO-10303-21;\n")
    return "".join(out)
