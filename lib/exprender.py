"""Schema model -> EXPRESS text."""
from expmodel import SIMPLE


def typeref(tr):
    if tr["k"] in SIMPLE:
        return tr["k"]
    if tr["k"] == "named":
        return tr["name"]
    hi = "?" if tr["hi"] is None else str(tr["hi"])
    s = "%s [%d:%s] OF " % (tr["agg"], tr["lo"], hi)
    if tr.get("optional") and tr["agg"] == "ARRAY":
        s += "OPTIONAL "
    if tr.get("unique") and tr["agg"] in ("LIST", "ARRAY"):
        s += "UNIQUE "
    return s + typeref(tr["of"])


def superexpr(x, top=True):
    if isinstance(x, str):
        return x
    if x["op"] == "ONEOF":
        return "ONEOF(" + ", ".join(superexpr(a, False) for a in x["args"]) + ")"
    s = (" %s " % x["op"]).join(superexpr(a, False) for a in x["args"])
    return s if top else "(" + s + ")"


def entity(e):
    out = []
    head = "ENTITY " + e["name"]
    if e.get("abstract") or e.get("superexpr") is not None:
        head += "\n  "
        if e.get("abstract"):
            head += "ABSTRACT "
        head += "SUPERTYPE"
        if e.get("superexpr") is not None:
            head += " OF (" + superexpr(e["superexpr"]) + ")"
    if e["supers"]:
        head += "\n  SUBTYPE OF (" + ", ".join(e["supers"]) + ")"
    out.append(head + ";")
    for a in e["attrs"]:
        nm = a["name"] if not a.get("redecl") else "SELF\\%s.%s" % (a["redecl"], a["name"])
        out.append("  %s : %s%s;" % (nm, "OPTIONAL " if a["optional"] else "", typeref(a["type"])))
    if e.get("derived"):
        out.append("DERIVE")
        for a in e["derived"]:
            nm = a["name"] if not a.get("redecl") else "SELF\\%s.%s" % (a["redecl"], a["name"])
            out.append("  %s : %s := %s;" % (nm, typeref(a["type"]), a["expr"]))
    if e.get("inverse"):
        out.append("INVERSE")
        for a in e["inverse"]:
            t = ""
            if a["agg"]:
                hi = "?" if a["agg"]["hi"] is None else str(a["agg"]["hi"])
                t = "%s [%d:%s] OF " % (a["agg"]["agg"], a["agg"]["lo"], hi)
            out.append("  %s : %s%s FOR %s;" % (a["name"], t, a["entity"], a["attr"]))
    if e.get("unique"):
        out.append("UNIQUE")
        for u in e["unique"]:
            out.append("  %s : %s;" % (u["label"], ", ".join(u["attrs"])))
    if e.get("where"):
        out.append("WHERE")
        for w in e["where"]:
            out.append("  %s%s;" % ((w["label"] + " : ") if w.get("label") else "", w["expr"]))
    out.append("END_ENTITY;")
    return "\n".join(out)


def typedecl(t):
    if t["kind"] == "enum":
        body = "ENUMERATION OF (" + ", ".join(t["items"]) + ")"
    elif t["kind"] == "select":
        body = "SELECT (" + ", ".join(t["members"]) + ")"
    else:
        body = typeref(t["of"])
    s = "TYPE %s = %s;" % (t["name"], body)
    if t.get("where"):
        s += "\nWHERE\n" + "\n".join("  %s%s;" % ((w["label"] + " : ") if w.get("label") else "", w["expr"]) for w in t["where"])
    return s + "\nEND_TYPE;"


def schema(d):
    out = ["SCHEMA %s;" % d["name"], ""]
    for t in d["types"]:
        out.append(typedecl(t))
        out.append("")
    for e in d["entities"]:
        out.append(entity(e))
        out.append("")
    out.append("END_SCHEMA;")
    return "\n".join(out) + "\n"
