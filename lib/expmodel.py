"""EXPRESS schema model (plain dicts, JSON-able) + semantic helpers that form the *reference* for
attribute order (ISO 10303-21 11.2.5.2), inheritance closure, and legal complex entity sets.

schema   = {"name", "types":[type], "entities":[entity]}
type     = {"name", "kind":"defined", "of":typeref}            TYPE x = <typeref>;
         | {"name", "kind":"enum", "items":[...]}
         | {"name", "kind":"select", "members":[names]}
typeref  = {"k":"INTEGER"|"REAL"|"NUMBER"|"STRING"|"BOOLEAN"|"LOGICAL"|"BINARY"}
         | {"k":"named","name":n}                               (defined type or entity)
         | {"k":"agg","agg":"LIST"|"SET"|"BAG"|"ARRAY","lo":int,"hi":int|None,"unique":bool,"optional":bool,"of":typeref}
entity   = {"name","supers":[names],"abstract":bool,"superexpr":expr|None,
            "attrs":[{"name","type":typeref,"optional":bool,"redecl":supername|None}],
            "derived":[{"name","type":typeref,"expr":text,"redecl":supername|None}],
            "inverse":[{"name","agg":None|{"agg","lo","hi"},"entity":E,"attr":a}],
            "unique":[{"label","attrs":[names]}], "where":[{"label"|None,"expr":text}]}
expr     = name | {"op":"ONEOF"|"AND"|"ANDOR","args":[expr]}
"""

SIMPLE = ("INTEGER", "REAL", "NUMBER", "STRING", "BOOLEAN", "LOGICAL", "BINARY")


def T(k):
    return {"k": k}


def named(n):
    return {"k": "named", "name": n}


def agg(kind, of, lo=0, hi=None, unique=False, optional=False):
    return {"k": "agg", "agg": kind, "lo": lo, "hi": hi, "unique": unique, "optional": optional, "of": of}


class Schema:
    """Read-only view with look-ups."""

    def __init__(self, d):
        self.d = d
        self.name = d["name"]
        self.types = {t["name"].lower(): t for t in d["types"]}
        self.entities = {e["name"].lower(): e for e in d["entities"]}
        self.order = [e["name"].lower() for e in d["entities"]]
        self.subs = {n: [] for n in self.order}
        for e in d["entities"]:
            for s in e["supers"]:
                self.subs[s.lower()].append(e["name"].lower())

    def ent(self, n):
        return self.entities[n.lower()]

    def typ(self, n):
        return self.types[n.lower()]

    def is_entity(self, n):
        return n.lower() in self.entities

    # ---- inheritance
    def ancestors(self, n):
        """All proper supertypes of n (names, lower)."""
        out = []
        seen = set()

        def rec(x):
            for s in self.ent(x)["supers"]:
                s = s.lower()
                if s not in seen:
                    seen.add(s)
                    out.append(s)
                    rec(s)
        rec(n.lower())
        return out

    def closure(self, names):
        s = set(x.lower() for x in names)
        for x in list(s):
            s.update(self.ancestors(x))
        return s

    def descendants(self, n):
        out = set()

        def rec(x):
            for c in self.subs[x]:
                if c not in out:
                    out.add(c)
                    rec(c)
        rec(n.lower())
        return out

    def is_a(self, n, sup):
        n, sup = n.lower(), sup.lower()
        return n == sup or sup in self.ancestors(n)

    # ---- Part 21 internal mapping order (11.2.5.2)
    def p21_entity_order(self, n):
        """Supertypes depth-first in SUBTYPE OF order, each once, then n."""
        out = []

        def rec(x):
            x = x.lower()
            if x in out:
                return
            for s in self.ent(x)["supers"]:
                rec(s)
            if x not in out:
                out.append(x)
        rec(n)
        return out

    def redeclarations(self, members):
        """For a set of entity names: map (owner, attr) -> ("derived"|"explicit", redeclaring entity, new type)
        for attributes redeclared by some member.  `owner` is the entity that DECLARES the attribute: a re-declaration of a
        re-declaration (SELF\\mid.a in a sub-subtype) is followed back to it, and the most specific re-declaration wins."""
        def declaring(ent, attr):
            seen = set()
            while ent not in seen:
                seen.add(ent)
                nxt = None
                for a in self.ent(ent)["attrs"] + self.ent(ent)["derived"]:
                    if a["name"].lower() == attr and a.get("redecl"):
                        nxt = a["redecl"].lower()
                if nxt is None:
                    return ent
                ent = nxt
            return ent
        cands = {}
        for m in members:
            e = self.ent(m)
            for a in e["attrs"]:
                if a.get("redecl"):
                    key = (declaring(a["redecl"].lower(), a["name"].lower()), a["name"].lower())
                    cands.setdefault(key, []).append((len(self.ancestors(m)), m.lower(), ("explicit", m, a["type"], a["optional"])))
            for a in e["derived"]:
                if a.get("redecl"):
                    key = (declaring(a["redecl"].lower(), a["name"].lower()), a["name"].lower())
                    cands.setdefault(key, []).append((len(self.ancestors(m)), m.lower(), ("derived", m, a["type"])))
        return {k: sorted(v)[-1][2] for k, v in cands.items()}

    def own_slots(self, n):
        """Explicit, non-redeclaring attributes declared by n itself, in order."""
        return [a for a in self.ent(n)["attrs"] if not a.get("redecl")]

    def p21_slots(self, n):
        """Slots of a simple (internally mapped) instance of n: list of dict(owner, name, type, optional, derived)."""
        members = self.p21_entity_order(n)
        red = self.redeclarations(members)
        slots = []
        for m in members:
            for a in self.own_slots(m):
                slots.append(self._slot(m, a, red))
        return slots

    def part_slots(self, part, members):
        """Slots of one part of an externally mapped instance with entity set `members`."""
        red = self.redeclarations(members)
        return [self._slot(part.lower(), a, red) for a in self.own_slots(part)]

    def _slot(self, owner, a, red):
        r = red.get((owner, a["name"].lower()))
        s = {"owner": owner, "name": a["name"].lower(), "type": a["type"], "optional": a["optional"], "derived": False,
             "redeclared_by": None}
        if r:
            s["redeclared_by"] = r[1]
            if r[0] == "derived":
                s["derived"] = True
            else:
                s["type"] = r[2]
                s["optional"] = r[3]
        return s

    # ---- type resolution
    def resolve(self, tr):
        """Follow defined types down to a structural description:
        ("simple",K) | ("enum",typename,items) | ("select",typename) | ("entity",name) | ("agg",typeref)"""
        while True:
            if tr["k"] in SIMPLE:
                return ("simple", tr["k"])
            if tr["k"] == "agg":
                return ("agg", tr)
            n = tr["name"].lower()
            if n in self.entities:
                return ("entity", n)
            t = self.types[n]
            if t["kind"] == "enum":
                return ("enum", n, t["items"])
            if t["kind"] == "select":
                return ("select", n)
            tr = t["of"]

    def select_leaves(self, n, _seen=None):
        """Leaf members of a select (defined types incl. enums/aggregate types, and entities), flattening nested selects."""
        _seen = _seen or set()
        out = []
        for m in self.typ(n)["members"]:
            ml = m.lower()
            if ml in self.types and self.types[ml]["kind"] == "select":
                if ml not in _seen:
                    _seen.add(ml)
                    out += self.select_leaves(ml, _seen)
            else:
                if ml not in out:
                    out.append(ml)
        return out

    def select_direct_members(self, n):
        return [m.lower() for m in self.typ(n)["members"]]

    # ---- legal complex entity sets (reference predicate for C08; also used to build conforming populations)
    def full_superexpr(self, n):
        """Supertype expression of n completed by ANDOR with every direct subtype it does not mention."""
        e = self.ent(n)
        subs = self.subs[n.lower()]
        if not subs:
            return None
        mentioned = set()

        def names(x):
            if isinstance(x, str):
                mentioned.add(x.lower())
            else:
                for a in x["args"]:
                    names(a)
        ex = e.get("superexpr")
        if ex is not None:
            names(ex)
        rest = [s for s in subs if s not in mentioned]
        if ex is None:
            if len(rest) == 1:
                return rest[0]
            return {"op": "ANDOR", "args": rest}
        if not rest:
            return ex
        return {"op": "ANDOR", "args": [ex] + rest}

    def legal_set(self, S):
        """Reference predicate: is the entity set S (names) a legal complex entity data type?"""
        S = set(x.lower() for x in S)
        if not S:
            return False
        # (1) closed under supertypes
        if self.closure(S) != S:
            return False
        # (3) connected via sub/supertype links inside S
        start = next(iter(S))
        seen = {start}
        todo = [start]
        while todo:
            x = todo.pop()
            nb = [s.lower() for s in self.ent(x)["supers"]] + self.subs[x]
            for y in nb:
                if y in S and y not in seen:
                    seen.add(y)
                    todo.append(y)
        if seen != S:
            return False
        # (2) every member's supertype constraint

        def touched(x):
            if isinstance(x, str):
                return x.lower() in S
            return any(touched(a) for a in x["args"])

        def sat(x):
            if isinstance(x, str):
                return x.lower() in S
            op = x["op"]
            if op == "ONEOF":
                t = [a for a in x["args"] if touched(a)]
                return len(t) == 1 and sat(t[0])
            if op == "AND":
                return all(sat(a) for a in x["args"])
            t = [a for a in x["args"] if touched(a)]
            return len(t) >= 1 and all(sat(a) for a in t)
        for e in S:
            subs_in = [s for s in self.subs[e] if s in S]
            if not subs_in:
                if self.ent(e)["abstract"]:
                    return False
                continue
            ex = self.full_superexpr(e)
            if not sat(ex):
                return False
        return True

    def violated_constraints(self, S):
        """For a set S that is closed under supertypes: the members whose own constraint S violates - an ABSTRACT member
        without any subtype in S, or a member whose supertype expression is not satisfied by the subtypes present."""
        S = set(x.lower() for x in S)

        def touched(x):
            if isinstance(x, str):
                return x.lower() in S
            return any(touched(a) for a in x["args"])

        def sat(x):
            if isinstance(x, str):
                return x.lower() in S
            op = x["op"]
            if op == "ONEOF":
                t = [a for a in x["args"] if touched(a)]
                return len(t) == 1 and sat(t[0])
            if op == "AND":
                return all(sat(a) for a in x["args"])
            t = [a for a in x["args"] if touched(a)]
            return len(t) >= 1 and all(sat(a) for a in t)
        out = []
        for e in sorted(S):
            subs_in = [s for s in self.subs[e] if s in S]
            if not subs_in:
                if self.ent(e)["abstract"]:
                    out.append(e)
                continue
            if not sat(self.full_superexpr(e)):
                out.append(e)
        return out

    def leaves_of(self, S):
        S = set(S)
        return [e for e in S if not any(c in S for c in self.subs[e])]

    def instantiable_simple(self):
        """Entities that may appear as an internally mapped (single leaf) instance."""
        return [n for n in self.order if self.legal_set(self.closure([n]))]
