import sys, os, glob
sys.path.insert(0, os.path.dirname(__file__))
import common, build
build.ensure("plain")
d=os.path.join(common.WORK,"run","gentest")
files=sorted(glob.glob(d+"/s*.exp"))
def b(p):
    o=p[:-4]+".d"
    try:
        build.build_schema(p,o,jobs=2); return (p,None)
    except build.BuildError as e:
        return (p,e.stage+": "+e.log[-1500:])
res=common.pmap(b,files,8)
bad=[r for r in res if r[1]]
print("built",len(res),"bad",len(bad))
for p,m in bad[:12]: print("==",p,"\n",m[:1500])
