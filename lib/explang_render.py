"""Rendering side of the language-profile EXPRESS generator (explang.py):
  * generator AST (expressions, statements, types, declarations)  ->  lexemes  ->  source text with random layout
    (white space, line breaks, embedded / nested / tail remarks, random letter case of reserved words and identifiers)
  * generator AST  ->  the canonical declaration map that an ISO 10303-11 parser must produce for that text
    (same format as expparse.Decls) - used by the self-test and by C07 to cross-check the independent parser.

Parentheses are emitted only where the syntax of ISO 10303-11 annex A needs them (operator rows of clause 12:
6 relational, 5 additive, 4 multiplicative, 3 '**', 2 unary, 1 primary) plus explicit ('paren', e) nodes, so the source
text relies on precedence and left-to-right association.
"""
import random

import expparse
from expparse import Expr, mk_expr

ROW = {"**": 3}
for _o in ("*", "/", "DIV", "MOD", "AND", "||"):
    ROW[_o] = 4
for _o in ("+", "-", "OR", "XOR"):
    ROW[_o] = 5
for _o in ("=", "<>", "<=", ">=", "<", ">", ":=:", ":<>:", "IN", "LIKE"):
    ROW[_o] = 6

WORD_OPS = ("DIV", "MOD", "AND", "OR", "XOR", "IN", "LIKE", "NOT")


def row(e):
    k = e[0]
    if k == "op":
        return ROW[e[1]]
    if k == "un":
        return 2
    return 1


# ------------------------------------------------------------------------------------------------------------
# lexemes: (kind, text)   kind: kw | id | lit | sym

class Lex:
    def __init__(self):
        self.out = []

    def kw(self, *words):
        for w in words:
            self.out.append(("kw", w))

    def id(self, name):
        self.out.append(("id", name))

    def sym(self, s):
        self.out.append(("sym", s))

    def lit(self, s):
        self.out.append(("lit", s))

    # ---- expressions
    def expr(self, e, max_row=6):
        """emit e; parenthesise if its row is looser than max_row"""
        if row(e) > max_row:
            self.sym("(")
            self._expr(e)
            self.sym(")")
        else:
            self._expr(e)

    def _expr(self, e):
        k = e[0]
        if k in ("int", "real"):
            self.lit(e[1])
        elif k == "str":
            self.lit("'" + e[1].replace("'", "''") + "'")
        elif k == "estr":
            self.lit('"' + e[1] + '"')
        elif k == "bin":
            self.lit("%" + e[1])
        elif k == "log":
            self.kw(e[1])
        elif k == "const":
            if e[1] == "?":
                self.sym("?")
            else:
                self.kw(e[1])
        elif k == "id":
            self.id(e[1])
        elif k == "paren":
            self.sym("(")
            self._expr(e[1])
            self.sym(")")
        elif k == "un":
            if e[1] == "NOT":
                self.kw("NOT")
            else:
                self.sym(e[1])
            self.expr(e[2], 1)
        elif k == "op":
            op = e[1]
            r = ROW[op]
            chain = r in (4, 5)
            self.expr(e[2], r if chain else r - 1)
            if op in WORD_OPS:
                self.kw(op)
            else:
                self.sym(op)
            self.expr(e[3], r - 1)
        elif k == "call":
            if e[1].isupper():
                self.kw(e[1])
            else:
                self.id(e[1])
            if e[2] is not None:
                self.sym("(")
                for i, a in enumerate(e[2]):
                    if i:
                        self.sym(",")
                    self.expr(a)
                self.sym(")")
        elif k == "agg":
            self.sym("[")
            for i, (a, rep) in enumerate(e[1]):
                if i:
                    self.sym(",")
                self.expr(a)
                if rep is not None:
                    self.sym(":")
                    self.expr(rep)
            self.sym("]")
        elif k == "query":
            self.kw("QUERY")
            self.sym("(")
            self.id(e[1])
            self.sym("<*")
            self.expr(e[2], 5)
            self.sym("|")
            self.expr(e[3])
            self.sym(")")
        elif k == "interval":
            self.sym("{")
            self.expr(e[1], 5)
            self.sym(e[2])
            self.expr(e[3], 5)
            self.sym(e[4])
            self.expr(e[5], 5)
            self.sym("}")
        elif k == "dot":
            self._expr(e[1])
            self.sym(".")
            self.id(e[2])
        elif k == "grp":
            self._expr(e[1])
            self.sym("\\")
            self.id(e[2])
        elif k == "idx":
            self._expr(e[1])
            self.sym("[")
            self.expr(e[2], 5)
            self.sym("]")
        elif k == "rng":
            self._expr(e[1])
            self.sym("[")
            self.expr(e[2], 5)
            self.sym(":")
            self.expr(e[3], 5)
            self.sym("]")
        else:
            raise AssertionError(e)

    # ---- types
    def type(self, t):
        k = t[0]
        if k == "simple":
            self.kw(t[1])
            if t[2] is not None:
                self.sym("(")
                self.expr(t[2], 5)
                self.sym(")")
                if t[3]:
                    self.kw("FIXED")
        elif k == "ref":
            self.id(t[1])
        elif k == "agg":
            self.kw(t[1])
            if t[2] is not None:
                self.sym("[")
                self.expr(t[2], 5)
                self.sym(":")
                self.expr(t[3], 5)
                self.sym("]")
            self.kw("OF")
            if t[4]:
                self.kw("OPTIONAL")
            if t[5]:
                self.kw("UNIQUE")
            self.type(t[6])
        elif k == "generic":
            self.kw("GENERIC")
            if t[1]:
                self.sym(":")
                self.id(t[1])
        elif k == "aggregate":
            self.kw("AGGREGATE")
            if t[1]:
                self.sym(":")
                self.id(t[1])
            self.kw("OF")
            self.type(t[2])
        else:
            raise AssertionError(t)

    # ---- statements
    def stmts(self, body):
        for s in body:
            self.stmt(s)

    def stmt(self, s):
        k = s[0]
        if k == "null":
            self.sym(";")
        elif k == "alias":
            self.kw("ALIAS")
            self.id(s[1])
            self.kw("FOR")
            self._expr(s[2])
            self.sym(";")
            self.stmts(s[3])
            self.kw("END_ALIAS")
            self.sym(";")
        elif k == "assign":
            self._expr(s[1])
            self.sym(":=")
            self.expr(s[2])
            self.sym(";")
        elif k == "case":
            self.kw("CASE")
            self.expr(s[1])
            self.kw("OF")
            for labels, st in s[2]:
                for i, l in enumerate(labels):
                    if i:
                        self.sym(",")
                    self.expr(l)
                self.sym(":")
                self.stmt(st)
            if s[3] is not None:
                self.kw("OTHERWISE")
                self.sym(":")
                self.stmt(s[3])
            self.kw("END_CASE")
            self.sym(";")
        elif k == "compound":
            self.kw("BEGIN")
            self.stmts(s[1])
            self.kw("END")
            self.sym(";")
        elif k == "escape":
            self.kw("ESCAPE")
            self.sym(";")
        elif k == "skip":
            self.kw("SKIP")
            self.sym(";")
        elif k == "if":
            self.kw("IF")
            self.expr(s[1])
            self.kw("THEN")
            self.stmts(s[2])
            if s[3] is not None:
                self.kw("ELSE")
                self.stmts(s[3])
            self.kw("END_IF")
            self.sym(";")
        elif k == "pcall":
            if s[1].isupper():
                self.kw(s[1])
            else:
                self.id(s[1])
            if s[2] is not None:
                self.sym("(")
                for i, a in enumerate(s[2]):
                    if i:
                        self.sym(",")
                    self.expr(a)
                self.sym(")")
            self.sym(";")
        elif k == "repeat":
            self.kw("REPEAT")
            if s[1] is not None:
                v, lo, hi, by = s[1]
                self.id(v)
                self.sym(":=")
                self.expr(lo, 5)
                self.kw("TO")
                self.expr(hi, 5)
                if by is not None:
                    self.kw("BY")
                    self.expr(by, 5)
            if s[2] is not None:
                self.kw("WHILE")
                self.expr(s[2])
            if s[3] is not None:
                self.kw("UNTIL")
                self.expr(s[3])
            self.sym(";")
            self.stmts(s[4])
            self.kw("END_REPEAT")
            self.sym(";")
        elif k == "return":
            self.kw("RETURN")
            if s[1] is not None:
                self.sym("(")
                self.expr(s[1])
                self.sym(")")
            self.sym(";")
        else:
            raise AssertionError(s)

    # ---- declarations
    def where(self, rules):
        if rules:
            self.kw("WHERE")
            for label, e in rules:
                if label:
                    self.id(label)
                    self.sym(":")
                self.expr(e)
                self.sym(";")

    def attr_name(self, n):
        if isinstance(n, tuple):
            self.kw("SELF")
            self.sym("\\")
            self.id(n[1])
            self.sym(".")
            self.id(n[2])
        else:
            self.id(n)

    def supertype(self, se, level=0):
        """level 0: ANDOR chain allowed; 1: AND chain allowed; 2: term"""
        k = se[0]
        if k == "ent":
            self.id(se[1])
        elif k == "oneof":
            self.kw("ONEOF")
            self.sym("(")
            for i, x in enumerate(se[1]):
                if i:
                    self.sym(",")
                self.supertype(x, 0)
            self.sym(")")
        elif k == "paren":
            self.sym("(")
            self.supertype(se[1], 0)
            self.sym(")")
        elif k == "andor":
            if level > 0:
                self.sym("(")
            self.supertype(se[1], 0)
            self.kw("ANDOR")
            self.supertype(se[2], 1)
            if level > 0:
                self.sym(")")
        elif k == "and":
            if level > 1:
                self.sym("(")
            self.supertype(se[1], 1)
            self.kw("AND")
            self.supertype(se[2], 2)
            if level > 1:
                self.sym(")")
        else:
            raise AssertionError(se)

    def head(self, h):
        for d in h.get("decls", []):
            self.decl(d)
        self.consts(h.get("consts", []))
        if h.get("locals"):
            self.kw("LOCAL")
            for names, t, init in h["locals"]:
                for i, n in enumerate(names):
                    if i:
                        self.sym(",")
                    self.id(n)
                self.sym(":")
                self.type(t)
                if init is not None:
                    self.sym(":=")
                    self.expr(init)
                self.sym(";")
            self.kw("END_LOCAL")
            self.sym(";")

    def consts(self, consts):
        if consts:
            self.kw("CONSTANT")
            for name, t, e in consts:
                self.id(name)
                self.sym(":")
                self.type(t)
                self.sym(":=")
                self.expr(e)
                self.sym(";")
            self.kw("END_CONSTANT")
            self.sym(";")

    def params(self, params):
        if params:
            self.sym("(")
            for i, (var, names, t) in enumerate(params):
                if i:
                    self.sym(";")
                if var:
                    self.kw("VAR")
                for j, n in enumerate(names):
                    if j:
                        self.sym(",")
                    self.id(n)
                self.sym(":")
                self.type(t)
            self.sym(")")

    def decl(self, d):
        k = d[0]
        if k == "type":
            _, name, under, where = d
            self.kw("TYPE")
            self.id(name)
            self.sym("=")
            if under[0] == "enum":
                self.kw("ENUMERATION", "OF")
                self.sym("(")
                for i, it in enumerate(under[1]):
                    if i:
                        self.sym(",")
                    self.id(it)
                self.sym(")")
            elif under[0] == "select":
                self.kw("SELECT")
                self.sym("(")
                for i, it in enumerate(under[1]):
                    if i:
                        self.sym(",")
                    self.id(it)
                self.sym(")")
            else:
                self.type(under)
            self.sym(";")
            self.where(where)
            self.kw("END_TYPE")
            self.sym(";")
        elif k == "entity":
            _, name, e = d
            self.kw("ENTITY")
            self.id(name)
            if e["abstract"]:
                self.kw("ABSTRACT", "SUPERTYPE")
                if e["supertype_of"] is not None:
                    self.kw("OF")
                    self.sym("(")
                    self.supertype(e["supertype_of"])
                    self.sym(")")
            elif e["supertype_of"] is not None:
                self.kw("SUPERTYPE", "OF")
                self.sym("(")
                self.supertype(e["supertype_of"])
                self.sym(")")
            if e["subtype_of"]:
                self.kw("SUBTYPE", "OF")
                self.sym("(")
                for i, s in enumerate(e["subtype_of"]):
                    if i:
                        self.sym(",")
                    self.id(s)
                self.sym(")")
            self.sym(";")
            for names, opt, t in e["attrs"]:
                for i, n in enumerate(names):
                    if i:
                        self.sym(",")
                    self.attr_name(n)
                self.sym(":")
                if opt:
                    self.kw("OPTIONAL")
                self.type(t)
                self.sym(";")
            if e["derive"]:
                self.kw("DERIVE")
                for n, t, ex in e["derive"]:
                    self.attr_name(n)
                    self.sym(":")
                    self.type(t)
                    self.sym(":=")
                    self.expr(ex)
                    self.sym(";")
            if e["inverse"]:
                self.kw("INVERSE")
                for n, t, ent, a in e["inverse"]:
                    self.attr_name(n)
                    self.sym(":")
                    self.type(t)
                    self.kw("FOR")
                    if ent:
                        self.id(ent)
                        self.sym(".")
                    self.id(a)
                    self.sym(";")
            if e["unique"]:
                self.kw("UNIQUE")
                for label, refs in e["unique"]:
                    if label:
                        self.id(label)
                        self.sym(":")
                    for i, r in enumerate(refs):
                        if i:
                            self.sym(",")
                        self.attr_name(r)
                    self.sym(";")
            self.where(e["where"])
            self.kw("END_ENTITY")
            self.sym(";")
        elif k in ("function", "procedure"):
            _, name, params, ret, head, body = d
            self.kw(k.upper())
            self.id(name)
            self.params(params)
            if k == "function":
                self.sym(":")
                self.type(ret)
            self.sym(";")
            self.head(head)
            self.stmts(body)
            self.kw("END_" + k.upper())
            self.sym(";")
        elif k == "rule":
            _, name, ents, head, body, where = d
            self.kw("RULE")
            self.id(name)
            self.kw("FOR")
            self.sym("(")
            for i, e in enumerate(ents):
                if i:
                    self.sym(",")
                self.id(e)
            self.sym(")")
            self.sym(";")
            self.head(head)
            self.stmts(body)
            self.where(where)
            self.kw("END_RULE")
            self.sym(";")
        else:
            raise AssertionError(d)

    def schema(self, s):
        self.kw("SCHEMA")
        self.id(s["name"])
        self.sym(";")
        for kind, other, items in s["interfaces"]:
            self.kw(kind, "FROM")
            self.id(other)
            if items:
                self.sym("(")
                for i, (it, alias) in enumerate(items):
                    if i:
                        self.sym(",")
                    self.id(it)
                    if alias:
                        self.kw("AS")
                        self.id(alias)
                self.sym(")")
            self.sym(";")
        self.consts(s["consts"])
        for d in s["decls"]:
            self.decl(d)
        self.kw("END_SCHEMA")
        self.sym(";")


# ------------------------------------------------------------------------------------------------------------
# layout

REMARK_WORDS = ["note", "see ISO 10303-11", "TODO", "x := 1;", "END_ENTITY;", "'quote", '"', "a.b", "100%", "IF a THEN", "{}", "[1:?]",
                "<>", ":=:", "\\", "tab\there", "", " ", "#1=FOO('x');", "ENTITY e;", "-", "- -", "<", "|", "?"]


def _remark_text(rnd):
    n = rnd.randint(0, 4)
    return " ".join(rnd.choice(REMARK_WORDS) for _ in range(n))


def embedded_remark(rnd, depth=0):
    """(* ... *) possibly nested, possibly multi-line; never contains a stray '(*' or '*)'"""
    parts = [_remark_text(rnd)]
    if depth < 2 and rnd.random() < 0.3:
        parts.append(embedded_remark(rnd, depth + 1))
        parts.append(_remark_text(rnd))
    if rnd.random() < 0.2:
        parts.append("\n  continued " + rnd.choice(["* star", "( paren", ") close", "-- tail inside", "***", "(( ))"]) + " ")
    return "(* " + " ".join(parts) + " *)"


def _case(rnd, kind, text, style):
    if kind == "kw":
        if style == 0:
            return text
        if style == 1:
            return text.lower()
        r = rnd.random()
        if r < 0.6:
            return text
        if r < 0.85:
            return text.lower()
        return text.capitalize()
    if kind == "id":
        if style == 2 and rnd.random() < 0.2:
            return text.upper() if rnd.random() < 0.5 else text.capitalize()
        return text
    return text


def layout(lexemes, seed, remarks=True, stats=None):
    """lexemes -> text.  All choices come from random.Random(seed) where seed is a Hypothesis-drawn integer."""
    rnd = random.Random(seed)
    style = rnd.choice([0, 0, 1, 2, 2])
    p_remark = rnd.choice([0.0, 0.01, 0.03, 0.08]) if remarks else 0.0
    p_tail = rnd.choice([0.0, 0.02, 0.05]) if remarks else 0.0
    p_tight = rnd.choice([0.0, 0.3, 0.8])
    out = []
    n_emb = n_nested = n_tail = 0
    prev = None
    col = 0
    for kind, text in lexemes:
        t = _case(rnd, kind, text, style)
        if prev is not None:
            pk, pt = prev
            sep = " "
            tight_ok = False
            if (pk == "sym" and pt in "([,") or (kind == "sym" and text in ")],;") or (pk == "sym" and pt in ".\\") or \
                    (kind == "sym" and text in ".\\"):
                a, b = pt[-1], t[0]
                # never create '(*' '*)' '--' or glue a '.' to a digit
                if not ((a == "(" and b == "*") or (a == "*" and b == ")") or (a in "-" and b in "-") or
                        (a == "." and b.isdigit()) or (a.isdigit() and b == ".") or (a == "." and b == ".")):
                    tight_ok = True
            if pk == "sym" and pt == ";" and rnd.random() < 0.7:
                sep = "\n" + " " * rnd.randint(0, 6)
            elif col > 100 or rnd.random() < 0.04:
                sep = "\n" + " " * rnd.randint(0, 8)
            elif tight_ok and rnd.random() < p_tight:
                sep = ""
            elif rnd.random() < 0.1:
                sep = rnd.choice(["  ", "\t", "   "])
            if p_remark and rnd.random() < p_remark:
                r = embedded_remark(rnd)
                n_emb += 1
                if r.count("(*") > 1:
                    n_nested += 1
                sep = (sep if sep else " ") + r + rnd.choice(["", " ", "\n"])
            if p_tail and rnd.random() < p_tail:
                # a tail remark; also directly after ';' (the scanner under test has a special token for that)
                txt = _remark_text(rnd)[:60]
                glue = "" if (pk == "sym" and pt == ";" and rnd.random() < 0.5) else " "
                sep = glue + "--" + txt + "\n" + " " * rnd.randint(0, 4)
                n_tail += 1
            out.append(sep)
            if "\n" in sep:
                col = len(sep) - sep.rfind("\n") - 1
            else:
                col += len(sep)
        out.append(t)
        col += len(t)
        prev = (kind, text)
    out.append("\n")
    if stats is not None:
        stats["embedded"] = n_emb
        stats["nested"] = n_nested
        stats["tail"] = n_tail
    return "".join(out)


def render_file(schemas, seed, remarks=True, stats=None):
    lx = Lex()
    for s in schemas:
        lx.schema(s)
    text = layout(lx.out, seed, remarks, stats)
    if remarks and seed % 3 == 0:
        text = "(* header remark (* nested *) *)\n-- tail remark before the first schema\n" + text
        if stats is not None:
            stats["embedded"] += 1
            stats["nested"] += 1
            stats["tail"] += 1
    return text


# ------------------------------------------------------------------------------------------------------------
# expected canonical form (expparse.Decls format) of a generator AST

def _pexpr(e, norm):
    """generator expression AST -> the AST expparse.parse_expression must produce"""
    k = e[0]
    if k == "int":
        return ("int", int(e[1])) if norm.literal_values else ("int", e[1])
    if k == "real":
        return ("real", expparse._real_value(e[1])) if norm.literal_values else ("real", e[1].upper())
    if k == "str":
        return ("str", e[1], (e[1],))
    if k in ("estr", "bin", "log", "const", "id"):
        return e
    if k == "paren":
        return _pexpr(e[1], norm)
    if k == "un":
        x = _pexpr(e[2], norm)
        if e[1] == "+" and norm.drop_unary_plus:
            return x
        return ("un", e[1], x)
    if k == "op":
        return ("op", e[1], _pexpr(e[2], norm), _pexpr(e[3], norm))
    if k == "call":
        return ("call", e[1], None if e[2] is None else [_pexpr(a, norm) for a in e[2]])
    if k == "agg":
        return ("agg", [(_pexpr(a, norm), None if r is None else _pexpr(r, norm)) for a, r in e[1]])
    if k == "query":
        return ("query", e[1], _pexpr(e[2], norm), _pexpr(e[3], norm))
    if k == "interval":
        lo, it, hi = _pexpr(e[1], norm), _pexpr(e[3], norm), _pexpr(e[5], norm)
        if norm.interval_as_and:
            return ("op", "AND", ("op", e[2], lo, it), ("op", e[4], it, hi))
        return ("interval", lo, e[2], it, e[4], hi)
    if k in ("dot", "grp"):
        return (k, _pexpr(e[1], norm), e[2])
    if k == "idx":
        return ("idx", _pexpr(e[1], norm), _pexpr(e[2], norm))
    if k == "rng":
        return ("rng", _pexpr(e[1], norm), _pexpr(e[2], norm), _pexpr(e[3], norm))
    raise AssertionError(e)


def cexpr(e, norm):
    ast = expparse.normalise(_pexpr(e, norm), norm)
    pc = []
    s = Expr(expparse.render(ast, pc))
    s.pieces = tuple(pc)
    s.ast = ast
    return s


def ctype(t, norm):
    k = t[0]
    if k == "simple":
        return ("simple", t[1], None if t[2] is None else cexpr(t[2], norm), bool(t[3]))
    if k == "ref":
        return t
    if k == "agg":
        lo = None if t[2] is None else cexpr(t[2], norm)
        hi = None if t[3] is None else cexpr(t[3], norm)
        if lo is None and norm.default_bounds and t[1] != "ARRAY":
            lo, hi = mk_expr(("int", 0)), mk_expr(("const", "?"))
        return ("agg", t[1], lo, hi, bool(t[4]), bool(t[5]), ctype(t[6], norm))
    if k == "generic":
        return ("generic", t[1])
    if k == "aggregate":
        return ("aggregate", t[1], ctype(t[2], norm))
    raise AssertionError(t)


def cstmts(body, norm):
    out = []
    for s in body:
        c = cstmt(s, norm)
        if c[0] == "null" and norm.drop_null_stmt:
            continue
        out.append(c)
    return out


def cstmt(s, norm):
    k = s[0]
    if k in ("null", "escape", "skip"):
        return (k,)
    if k == "alias":
        return ("alias", s[1], expparse.render(_pexpr(s[2], norm)), cstmts(s[3], norm))
    if k == "assign":
        return ("assign", expparse.render(expparse.normalise(_pexpr(s[1], norm), norm)), cexpr(s[2], norm))
    if k == "case":
        return ("case", cexpr(s[1], norm), [(tuple(cexpr(l, norm) for l in labels), cstmt(st, norm)) for labels, st in s[2]],
                None if s[3] is None else cstmt(s[3], norm))
    if k == "compound":
        return ("compound", cstmts(s[1], norm))
    if k == "if":
        return ("if", cexpr(s[1], norm), cstmts(s[2], norm), None if s[3] is None else cstmts(s[3], norm))
    if k == "pcall":
        return ("pcall", s[1], None if s[2] is None else [cexpr(a, norm) for a in s[2]])
    if k == "repeat":
        incr = None
        if s[1] is not None:
            v, lo, hi, by = s[1]
            cby = cexpr(by, norm) if by is not None else (mk_expr(("int", 1)) if norm.default_increment else None)
            incr = (v, cexpr(lo, norm), cexpr(hi, norm), cby)
        return ("repeat", incr, None if s[2] is None else cexpr(s[2], norm), None if s[3] is None else cexpr(s[3], norm),
                cstmts(s[4], norm))
    if k == "return":
        return ("return", None if s[1] is None else cexpr(s[1], norm))
    raise AssertionError(s)


def _cattr(n):
    return "SELF\\%s.%s" % (n[1], n[2]) if isinstance(n, tuple) else n


def _csuper(se):
    k = se[0]
    if k == "ent":
        return se[1]
    if k == "oneof":
        return "ONEOF(" + ", ".join(_csuper(x) for x in se[1]) + ")"
    if k == "paren":
        return _csuper(se[1])
    return "(%s %s %s)" % (_csuper(se[1]), k.upper(), _csuper(se[2]))


def _cwhere(rules, norm):
    return [(label, cexpr(e, norm)) for label, e in rules]


def _chead(h, scope, out, norm):
    for d in h.get("decls", []):
        cdecl(d, scope, out, norm)
    for name, t, e in h.get("consts", []):
        out[(scope, "constant", name)] = {"type": ctype(t, norm), "init": cexpr(e, norm)}
    locs = []
    for names, t, init in h.get("locals", []):
        for n in names:
            locs.append((n, ctype(t, norm), None if init is None else cexpr(init, norm)))
    return locs


def cdecl(d, scope, out, norm):
    k = d[0]
    if k == "type":
        _, name, under, where = d
        u = (under[0], tuple(under[1])) if under[0] in ("enum", "select") else ctype(under, norm)
        out[(scope, "type", name)] = {"under": u, "where": _cwhere(where, norm)}
    elif k == "entity":
        _, name, e = d
        out[(scope, "entity", name)] = {
            "abstract": bool(e["abstract"]),
            "supertype_of": None if e["supertype_of"] is None else _csuper(e["supertype_of"]),
            "subtype_of": tuple(e["subtype_of"]),
            "attrs": [(_cattr(n), bool(opt), ctype(t, norm)) for names, opt, t in e["attrs"] for n in names],
            "derive": [(_cattr(n), ctype(t, norm), cexpr(x, norm)) for n, t, x in e["derive"]],
            "inverse": [(_cattr(n), ctype(t, norm), ent, a) for n, t, ent, a in e["inverse"]],
            "unique": [(label, tuple(_cattr(r) for r in refs)) for label, refs in e["unique"]],
            "where": _cwhere(e["where"], norm)}
    elif k in ("function", "procedure"):
        _, name, params, ret, head, body = d
        inner = scope + ((k, name),)
        locs = _chead(head, inner, out, norm)
        out[(scope, k, name)] = {"params": [(bool(var), n, ctype(t, norm)) for var, names, t in params for n in names],
                                 "ret": None if ret is None else ctype(ret, norm), "locals": locs, "body": cstmts(body, norm)}
    elif k == "rule":
        _, name, ents, head, body, where = d
        inner = scope + (("rule", name),)
        locs = _chead(head, inner, out, norm)
        out[(scope, "rule", name)] = {"for": tuple(ents), "locals": locs, "body": cstmts(body, norm), "where": _cwhere(where, norm)}
    else:
        raise AssertionError(d)


def expected_decls(schemas, norm=expparse.DEFAULT_NORM):
    """-> dict in the format of expparse.Decls.decls"""
    out = {}
    for s in schemas:
        scope = (("schema", s["name"]),)
        for kind, other, items in s["interfaces"]:
            if items:
                for it, alias in items:
                    out[(scope, kind.lower(), (other, it, alias))] = True
            else:
                out[(scope, kind.lower(), (other, None, None))] = True
        for name, t, e in s["consts"]:
            out[(scope, "constant", name)] = {"type": ctype(t, norm), "init": cexpr(e, norm)}
        for d in s["decls"]:
            cdecl(d, scope, out, norm)
    return out
