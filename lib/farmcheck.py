"""Generic runner for checks of the shape: draw schemas -> build libraries -> per schema, Hypothesis explores
cases (populations, mutations, orders...) in a worker process -> merge evidence -> confirm + report violations."""
import json
import os
import shutil
import time

import build
import common
import expgen
import farm
from farm import Found

EXTRA_REPEATS = 4      # workers per fixed extra schema (lib/zoo.py)


class Ctx:
    """Per-schema worker context handed to case functions."""

    def __init__(self, prop, lib, seed, tier, rule, level):
        self.prop, self.lib, self.seed, self.tier = prop, lib, seed, tier
        self.ev = common.Evidence(prop, level, tier, seed, rule)
        self.findings = common.Findings()
        self.open_sigs = set(e["sig"] for e in self.findings.open_for(prop))
        self.wd = os.path.join(lib["dir"], "w%s" % lib.get("rep", ""))
        os.makedirs(self.wd, exist_ok=True)
        self.schema_text = open(lib["exp"]).read()
        self.schema_hash = common.chash(self.schema_text)
        self.n = 0
        self.state = {}

    def tag(self):
        self.n += 1
        return "c%d" % self.n

    def known(self, sig):
        """If sig is an open finding: count it and return True."""
        k = self.findings.match(self.prop, sig)
        if k:
            self.ev.known_hit(k["id"])
            return True
        return False


def run(prop, level, rule, tier, seed, n_schemas, n_examples, make_strategy, case_fn, confirm_fn, replay_files,
        schema_cfg=None, schema_strategy=None, exes=("p21read", "p21drv"), min_cases=50, variant="plain",
        schema_filter=None, post=None, nproc=None, extra_schemas=None):
    ev = common.Evidence(prop, level, tier, seed, rule)
    findings = common.Findings()
    root = common.scratch(prop.lower())
    want = n_schemas
    schemas = farm.draw_schemas(common.sub_seed(seed, prop, "schemas"), n_schemas * (3 if schema_filter else 1) + 2,
                                schema_cfg or {}, schema_strategy)
    if schema_filter:
        kept = [s for s in schemas if schema_filter(s)]
        ev.bump("schemas-rejected-by-filter", len(schemas) - len(kept))
        schemas = kept
    schemas = schemas[:want]
    if extra_schemas:
        # fixed hand-written schemas (lib/zoo.py) explored in addition to the drawn ones
        schemas = list(extra_schemas) + schemas
    for sd in schemas:
        for x in sd.get("tags", {}).get("excluded", []):
            ev.exclude(x)
    libs = farm.build_all(schemas, root, variant=variant, exes=exes)
    good = [l for l in libs if l["ok"]]
    for l in libs:
        if not l["ok"]:
            ev.inconclusive.append("schema %d did not build (%s): reported by C02, skipped here" % (l["idx"], l["stage"]))
            ev.bump("schemas-not-built")

    # the fixed schemas pack many shapes into one schema: they are explored by several workers with different case seeds
    n_extra = len(extra_schemas or [])
    reps = []
    for l in good:
        if l["idx"] < n_extra:
            for r in range(1, EXTRA_REPEATS):
                reps.append(dict(l, rep=r))
    good = good + reps

    def worker(lib):
        cseed = common.sub_seed(seed, prop, "cases", lib["idx"], lib["rep"]) if lib.get("rep") else common.sub_seed(seed, prop, "cases", lib["idx"])
        ctx = Ctx(prop, lib, cseed, tier, rule, level)
        strat = make_strategy(lib)
        found = farm.explore(lambda x: case_fn(ctx, x), strat, n_examples, ctx.seed)
        for t in expgen.tags(lib["schema"]):
            ctx.ev.bump("schema:" + t)
        if not lib.get("rep"):
            ctx.ev.bump("schemas")
        else:
            ctx.ev.bump("extra-workers-on-fixed-schemas")
        shutil.rmtree(ctx.wd, ignore_errors=True)
        return {"ev": ctx.ev.partial(), "found": found, "idx": lib["idx"]}

    results = common.pmap(common.guarded(worker), good, nproc)
    rc = 0
    seen_sigs = set()
    for l, (status, res) in zip(good, results):
        if status != "ok":
            print("machinery error in worker for schema %d:\n%s" % (l["idx"], res))
            rc = 3
            continue
        ev.merge(res["ev"])
        f = res["found"]
        if f:
            wd = os.path.join(l["dir"], "confirm")
            os.makedirs(wd, exist_ok=True)
            ok = True
            for _k in range(3):
                if not confirm_fn(l, f, wd):
                    ok = False
                    break
            if ok:
                files = {"schema.exp": open(l["exp"]).read(), "schema.json": json.dumps(l["schema"])}
                files.update(replay_files(f))
                d = common.save_replay(prop, files, {"property": prop, "what": f.get("what"), "sig": f.get("sig"),
                                                     "seed": seed, "tier": tier, "kind": f.get("kind")})
                ev.violations += 1
                if f.get("sig") not in seen_sigs or len(seen_sigs) < 8:
                    common.print_violation(prop, d, f.get("what", ""))
                seen_sigs.add(f.get("sig"))
                rc = max(rc, 1)
            else:
                ev.inconclusive.append("failure did not reproduce 3x: " + str(f.get("what"))[:300])
    for fid in ev.known:
        e = [x for x in findings.entries if x.get("id") == fid]
        common.print_known(prop, e[0]["what"] if e else fid)
    if post:
        post(ev)
    if ev.evaluations < min_cases and rc == 0:
        print("machinery failure: only %d cases executed" % ev.evaluations)
        rc = 3
    ev.write()
    shutil.rmtree(root, ignore_errors=True)
    print("%s %s: %d schemas, %d cases, %d distinct non-trivial, %d violations, known=%s, %.0fs" % (
        prop, tier, len(good), ev.evaluations, len(ev.nontrivial) + ev.nontrivial_counted, ev.violations, ev.known, time.time() - ev.t0))
    return rc


def replay_lib(path, exes=("p21read", "p21drv"), variant="plain", name="replay"):
    """Rebuild the schema library of a replay directory. Returns (lib, root)."""
    build.ensure(variant)
    root = common.scratch(name)
    sd = json.load(open(os.path.join(path, "schema.json")))
    lib = farm._build_one((0, sd, root, variant, exes, open(os.path.join(path, "schema.exp")).read()))
    return lib, root
