"""Builds /repo's *current working tree* into /verif/.work/build-<variant>, the schema scanner,
the C++ harness objects and generated schema libraries.  Never uses /repo/_build."""
import fcntl
import glob
import os
import re
import shutil
import subprocess
import sys
import time

from common import REPO, VERIF, WORK, NPROC, run

GUARD = "STEPCODE_VERIF"

VARIANTS = {
    "plain": dict(cc="gcc", cxx="g++", flags="-O1 -g -D%s" % GUARD, ld=""),
    "san": dict(cc="clang", cxx="clang++",
                flags="-O1 -g -fno-omit-frame-pointer -fsanitize=address,undefined -fno-sanitize=function -fno-sanitize-recover=undefined -D%s" % GUARD,
                ld="-fsanitize=address,undefined"),
    "fuzz": dict(cc="clang", cxx="clang++",
                 flags="-O1 -g -fno-omit-frame-pointer -fsanitize=fuzzer-no-link,address,undefined -fno-sanitize=function -fno-sanitize-recover=undefined -D%s" % GUARD,
                 ld="-fsanitize=address,undefined"),
}


# -fno-sanitize=function: UBSan's function-type check fires in Registry::ObjCreate for EVERY generated creator
# (creators are stored as SDAI_Application_instance*(*)() but defined with a derived return type). One root cause that
# would end every sanitizer campaign at its first instance; recorded as finding F39 and switched off here.


class BuildError(Exception):
    def __init__(self, stage, log):
        Exception.__init__(self, "%s failed:\n%s" % (stage, log[-6000:]))
        self.stage, self.log = stage, log


def bdir(variant):
    return os.path.join(WORK, "build-" + variant)


def tool(variant, name):
    return os.path.join(bdir(variant), "bin", name)


def _lock(name):
    os.makedirs(WORK, exist_ok=True)
    f = open(os.path.join(WORK, name + ".lock"), "w")
    fcntl.flock(f, fcntl.LOCK_EX)
    return f


def ensure(variant="plain", quiet=True):
    """Configure (once) and incrementally build the core of /repo for this variant."""
    v = VARIANTS[variant]
    b = bdir(variant)
    lk = _lock("build-" + variant)
    try:
        if not os.path.exists(os.path.join(b, "build.ninja")):
            os.makedirs(b, exist_ok=True)
            cmd = ["cmake", "-G", "Ninja", "-S", REPO, "-B", b, "-DSC_BUILD_SCHEMAS=", "-DSC_ENABLE_TESTING=OFF",
                   "-DCMAKE_BUILD_TYPE=Debug", "-DCMAKE_C_COMPILER=" + v["cc"], "-DCMAKE_CXX_COMPILER=" + v["cxx"],
                   "-DCMAKE_C_FLAGS_DEBUG=", "-DCMAKE_CXX_FLAGS_DEBUG=",
                   "-DCMAKE_C_FLAGS=" + v["flags"], "-DCMAKE_CXX_FLAGS=" + v["flags"],
                   "-DCMAKE_EXE_LINKER_FLAGS=" + v["ld"], "-DCMAKE_SHARED_LINKER_FLAGS=" + v["ld"]]
            rc, out, err, _ = run(cmd, timeout=600)
            if rc != 0:
                shutil.rmtree(b, ignore_errors=True)
                raise BuildError("cmake configure (%s)" % variant, out + err)
        rc, out, err, _ = run(["cmake", "--build", b, "-j", str(NPROC)], timeout=1800)
        if rc != 0:
            raise BuildError("core build (%s)" % variant, out + err)
        _harness_objects(variant)
    finally:
        lk.close()
    return b


def includes(variant):
    b = bdir(variant)
    return ["-I" + p for p in (REPO + "/include", b + "/include", REPO + "/src/cldai", REPO + "/src/cleditor",
                               REPO + "/src/clutils", REPO + "/src/clstepcore", REPO + "/src/cllazyfile",
                               REPO + "/src/cllazyfile/judy/src", REPO + "/src/test/p21read")]


def libs(variant, lazy=False):
    b = bdir(variant)
    l = ["-L" + b + "/lib"]
    if lazy:
        l.append("-lsteplazyfile")
    l += ["-lstepeditor", "-lstepcore", "-lstepdai", "-lsteputils", "-Wl,-rpath," + b + "/lib"]
    return l


def _newer(src_list, target):
    if not os.path.exists(target):
        return True
    t = os.path.getmtime(target)
    return any(os.path.getmtime(s) > t for s in src_list if os.path.exists(s))


def hobj_dir(variant):
    return os.path.join(WORK, "hobj-" + variant)


def _harness_objects(variant):
    """Compile schema-independent objects (p21drv, p21read, lazy-capable driver) once per variant."""
    v = VARIANTS[variant]
    od = hobj_dir(variant)
    os.makedirs(od, exist_ok=True)
    srcs = {
        "p21drv.o": os.path.join(VERIF, "harness", "p21drv.cc"),
        "p21read.o": REPO + "/src/test/p21read/p21read.cc",
        "sc_benchmark.o": REPO + "/src/test/p21read/sc_benchmark.cc",
    }
    # headers of the repo may have changed: rebuild whenever any core lib is newer than the object
    deps = glob.glob(bdir(variant) + "/lib/*.so.0.9.1")
    procs = []
    for o, s in srcs.items():
        if not os.path.exists(s):
            continue
        tgt = os.path.join(od, o)
        if _newer([s] + deps, tgt):
            cmd = [v["cxx"], "-std=c++11", "-w", "-fPIC"] + v["flags"].split() + includes(variant) + ["-c", s, "-o", tgt]
            procs.append((o, subprocess.Popen(cmd, stdout=subprocess.PIPE, stderr=subprocess.STDOUT)))
    for o, p in procs:
        out = p.communicate()[0].decode("utf-8", "replace")
        if p.returncode != 0:
            raise BuildError("harness object %s (%s)" % (o, variant), out)


def ensure_scanner(variant="plain"):
    """Build cmake/schema_scanner exactly as schemaScanner.cmake does (separate cmake project)."""
    ensure(variant)
    v = VARIANTS[variant]
    b = bdir(variant)
    sb = os.path.join(WORK, "scanner-" + variant)
    lk = _lock("scanner-" + variant)
    try:
        if not os.path.exists(os.path.join(sb, "build.ninja")):
            os.makedirs(sb, exist_ok=True)
            cache = os.path.join(sb, "initial_scanner_cache.cmake")
            with open(cache, "w") as f:
                f.write('set(SC_ROOT "%s" CACHE STRING "root dir")\n' % REPO)
                f.write('set(SC_BUILDDIR "%s" CACHE PATH "build dir")\n' % sb)
                f.write('set(CALLED_FROM "STEPCODE_CMAKELISTS" CACHE STRING "verification")\n')
                f.write('set(CMAKE_BUILD_TYPE "Debug" CACHE STRING "build type")\n')
                f.write('set(CMAKE_C_COMPILER "%s" CACHE STRING "compiler")\n' % v["cc"])
                f.write('set(CMAKE_CXX_COMPILER "%s" CACHE STRING "compiler")\n' % v["cxx"])
                f.write('set(CMAKE_C_FLAGS "%s" CACHE STRING "flags")\n' % v["flags"])
                f.write('set(CMAKE_CXX_FLAGS "%s" CACHE STRING "flags")\n' % v["flags"])
                f.write('set(CMAKE_EXE_LINKER_FLAGS "%s" CACHE STRING "flags")\n' % v["ld"])
            os.makedirs(os.path.join(sb, "include"), exist_ok=True)
            rc, out, err, _ = run(["cmake", "-C", cache, REPO + "/cmake/schema_scanner", "-G", "Ninja"], cwd=sb, timeout=300)
            if rc != 0:
                shutil.rmtree(sb, ignore_errors=True)
                raise BuildError("scanner configure", out + err)
        # generated headers (config.h etc.) come from the core build
        inc = os.path.join(sb, "include")
        for fn in os.listdir(b + "/include"):
            s = os.path.join(b, "include", fn)
            if os.path.isfile(s):
                shutil.copy2(s, os.path.join(inc, fn))
        rc, out, err, _ = run(["cmake", "--build", sb, "-j", str(NPROC)], timeout=600)
        if rc != 0:
            raise BuildError("scanner build", out + err)
    finally:
        lk.close()
    for cand in (sb + "/bin/schema_scanner", sb + "/schema_scanner"):
        if os.path.exists(cand):
            return cand
    raise BuildError("scanner build", "schema_scanner binary not found under " + sb)


def gen_sources(d):
    """The translation units SC_CXX_schema_macros.cmake compiles in a unity build."""
    tus = []
    for f in sorted(os.listdir(d)):
        if f.endswith(".cc"):
            tus.append(f)
    return tus


def build_schema(exp_path, outdir, variant="plain", exes=("p21read", "p21drv"), opt="-O0", extra_objs=(), jobs=4):
    """exp2cxx + compile + link, the way the CMake macros do (unity build).
    Returns dict(dir, lib, exes{name:path}, gen_stdout, gen_stderr). Raises BuildError(stage,...)."""
    v = VARIANTS[variant]
    os.makedirs(outdir, exist_ok=True)
    rc, out, err, _ = run([tool(variant, "exp2cxx"), exp_path], cwd=outdir, timeout=300)
    if rc != 0:
        raise BuildError("exp2cxx", "rc=%s\n%s\n%s" % (rc, out, err))
    tus = gen_sources(outdir)
    inc = ["-I."] + includes(variant)
    flags = [f for f in v["flags"].split() if not f.startswith("-O") and f != "-g"]
    objs = []
    pending = []
    logs = []

    def drain(limit):
        while len(pending) > limit:
            t, p = pending.pop(0)
            o = p.communicate()[0].decode("utf-8", "replace")
            if p.returncode != 0:
                logs.append("== %s\n%s" % (t, o))
    for t in tus:
        o = t + ".o"
        objs.append(o)
        cmd = [v["cxx"], "-std=c++11", opt, "-w", "-fPIC", "-DSC_SDAI_UNITY_BUILD"] + flags + inc + ["-c", t, "-o", o]
        pending.append((t, subprocess.Popen(cmd, cwd=outdir, stdout=subprocess.PIPE, stderr=subprocess.STDOUT)))
        drain(jobs - 1)
    drain(0)
    if logs:
        raise BuildError("compile generated code", "\n".join(logs))
    lib = os.path.join(outdir, "libschema.so")
    cmd = [v["cxx"], "-shared", "-o", lib] + objs + v["ld"].split() + libs(variant)
    rc, o, e, _ = run(cmd, cwd=outdir, timeout=300)
    if rc != 0:
        raise BuildError("link schema library", o + e)
    res = {"dir": outdir, "lib": lib, "exes": {}, "gen_stdout": out, "gen_stderr": err}
    od = hobj_dir(variant)
    for ex in exes:
        if ex == "p21read":
            o_list = [od + "/p21read.o", od + "/sc_benchmark.o"]
        else:
            o_list = [od + "/" + ex + ".o"]
        tgt = os.path.join(outdir, ex)
        cmd = [v["cxx"], "-o", tgt] + o_list + list(extra_objs) + [lib] + v["ld"].split() + libs(variant, lazy=True) + ["-Wl,-rpath," + outdir]
        rc, o, e, _ = run(cmd, cwd=outdir, timeout=300)
        if rc != 0:
            raise BuildError("link " + ex, o + e)
        res["exes"][ex] = tgt
    return res


if __name__ == "__main__":
    t0 = time.time()
    what = sys.argv[1] if len(sys.argv) > 1 else "ensure"
    if what == "ensure":
        for var in (sys.argv[2:] or ["plain"]):
            ensure(var)
            print("built", var, "%.1fs" % (time.time() - t0))
    elif what == "scanner":
        print(ensure_scanner(sys.argv[2] if len(sys.argv) > 2 else "plain"))
    elif what == "schema":
        ensure("plain")
        print(build_schema(os.path.abspath(sys.argv[2]), os.path.abspath(sys.argv[3])))
