"""Dispatcher: ./check Cxx [--tier quick|thorough] [--replay PATH]"""
import importlib
import os
import sys
import traceback

import common


def main():
    args = sys.argv[1:]
    if not args:
        print("usage: check <Cxx> [--tier quick|thorough] [--replay PATH]")
        return 2
    prop = args[0].upper()
    tier = os.environ.get("VERIF_TIER", "quick")
    replay = None
    i = 1
    while i < len(args):
        if args[i] == "--tier":
            tier = args[i + 1]
            i += 2
        elif args[i] == "--replay":
            replay = args[i + 1]
            i += 2
        else:
            i += 1
    if tier not in ("quick", "thorough"):
        tier = "quick"
    mod = importlib.import_module(prop.lower())
    seed = common.get_seed()
    try:
        if replay:
            rc = mod.replay(replay)
        else:
            rc = mod.main(tier, seed)
    except common_build_error() as e:
        # The tree does not build: that is not a verdict on the property; report loudly, exit 2.
        print("BUILD-FAILURE while checking %s: %s" % (prop, e))
        return 2
    sys.stdout.flush()
    return rc


def common_build_error():
    import build
    return build.BuildError


if __name__ == "__main__":
    try:
        sys.exit(main())
    except SystemExit:
        raise
    except Exception:
        traceback.print_exc()
        sys.exit(3)
