"""Schema farm: draw schemas with Hypothesis (generate-only), render, build their libraries in parallel, and
run Hypothesis-driven per-schema explorations in worker processes."""
import json
import os
import shutil
import sys
import traceback

from hypothesis import given, settings, seed as hseed, Phase, HealthCheck, strategies as st
import hypothesis

import build
import common
import expgen
import exprender


def draw_schemas(seed, n, cfg=None, strategy=None):
    out = []
    strat = strategy if strategy is not None else expgen.schemas(cfg or {})

    @hseed(seed)
    @settings(max_examples=n, database=None, deadline=None, phases=[Phase.generate],
              suppress_health_check=list(HealthCheck))
    @given(strat)
    def collect(s):
        out.append(s)
    collect()
    # distinct by rendered text, keep order
    seen = set()
    res = []
    for s in out:
        h = common.chash(exprender.schema(s))
        if h not in seen:
            seen.add(h)
            res.append(s)
    return res


def _build_one(arg):
    idx, sd, root, variant, exes, text = arg
    d = os.path.join(root, "s%03d" % idx)
    shutil.rmtree(d, ignore_errors=True)
    os.makedirs(d)
    exp = os.path.join(d, "schema.exp")
    with open(exp, "w") as f:
        f.write(text if text is not None else exprender.schema(sd))
    with open(os.path.join(d, "schema.json"), "w") as f:
        json.dump(sd, f)
    try:
        r = build.build_schema(exp, os.path.join(d, "gen"), variant=variant, exes=exes, jobs=2)
        return {"idx": idx, "ok": True, "dir": d, "exp": exp, "schema": sd, "exes": r["exes"], "lib": r["lib"],
                "gendir": r["dir"]}
    except build.BuildError as e:
        return {"idx": idx, "ok": False, "dir": d, "exp": exp, "schema": sd, "stage": e.stage, "log": e.log[-4000:]}


def build_all(schemas, root, variant="plain", exes=("p21read", "p21drv"), texts=None):
    build.ensure(variant)
    os.makedirs(root, exist_ok=True)
    args = [(i, s, root, variant, exes, texts[i] if texts else None) for i, s in enumerate(schemas)]
    return common.pmap(_build_one, args, max(1, common.NPROC // 2))


def drv(lib, args, timeout=120, exe="p21drv", cwd=None, env=None):
    """Run the driver; returns dict(rc, json|None, out, err)."""
    rc, out, err, t = common.run([lib["exes"][exe]] + list(args), timeout=timeout, cwd=cwd, env=env)
    js = None
    for line in reversed(out.splitlines()):
        if line.startswith("@@JSON "):
            try:
                js = json.loads(line[7:])
            except ValueError:
                js = None
            break
    return {"rc": rc, "json": js, "out": out, "err": err, "t": t}


class Found(Exception):
    """Raised inside a Hypothesis test to signal a (non-known) failing case; carries a JSON-able payload."""

    def __init__(self, payload):
        Exception.__init__(self, payload.get("what", "failure"))
        self.payload = payload


def explore(test_fn, strategy, max_examples, seed):
    """Run `test_fn(example)` under Hypothesis. test_fn raises Found(payload) for a failing case.
    Returns None, or the payload of the *shrunk* failing case."""
    last = {}

    @hseed(seed)
    @settings(max_examples=max_examples, database=None, deadline=None, report_multiple_bugs=False, print_blob=False,
              suppress_health_check=list(HealthCheck), phases=[Phase.generate, Phase.shrink])
    @given(strategy)
    def run(x):
        try:
            test_fn(x)
        except Found as f:
            last["payload"] = f.payload
            raise
    try:
        run()
    except Found as f:
        return last.get("payload", f.payload)
    except hypothesis.errors.Flaky as f:
        p = last.get("payload")
        if p is not None:
            p = dict(p)
            p["flaky"] = True
            return p
        raise
    return None
