"""Runner for the generator-only checks (C17, C18, C12): W worker processes, each runs a Hypothesis exploration
(farm.explore: generate + shrink) of `case_fn(ctx, x)` over `make_strategy(ctx)`; evidence is merged, a shrunk failing
case is confirmed 3x (the tools under test are fresh processes every time), saved as a replay directory and reported."""
import os
import shutil
import time

import build
import common
import farm
from farm import Found  # noqa: F401  (re-exported)

TOOLS = {}       # name -> path of the private copy
TOOL_ENV = {}    # environment additions needed to run the copies (LD_LIBRARY_PATH)


def snapshot_tools(tag, variant="plain", scanner=False):
    """Build the current tree (build.ensure) and copy the generators + the shared libraries they load into a private
    directory, under the build lock: other checks / the harness rebuild the shared build directory concurrently, and a
    tool that is being relinked while a case runs would look like a crash or like non-determinism."""
    build.ensure(variant)
    sc = build.ensure_scanner(variant) if scanner else None
    d = common.scratch(tag + "-tools")
    os.makedirs(os.path.join(d, "bin"))
    os.makedirs(os.path.join(d, "lib"))
    b = build.bdir(variant)
    lk = build._lock("build-" + variant)
    try:
        for n in ("exp2cxx", "exp2python", "exppp", "check-express"):
            shutil.copy2(os.path.join(b, "bin", n), os.path.join(d, "bin", n))
            TOOLS[n] = os.path.join(d, "bin", n)
        for n in os.listdir(os.path.join(b, "lib")):
            if n.startswith(("libexpress.so", "libexppp.so")):
                shutil.copy2(os.path.join(b, "lib", n), os.path.join(d, "lib", n))
    finally:
        lk.close()
    if sc:
        lk = build._lock("scanner-" + variant)
        try:
            shutil.copy2(sc, os.path.join(d, "bin", "schema_scanner"))
            TOOLS["schema_scanner"] = os.path.join(d, "bin", "schema_scanner")
        finally:
            lk.close()
    TOOL_ENV.clear()
    TOOL_ENV["LD_LIBRARY_PATH"] = os.path.join(d, "lib")
    return d


def tool_env(base=None):
    e = dict(os.environ if base is None else base)
    e.update(TOOL_ENV)
    return e


class Ctx:
    def __init__(self, prop, level, tier, seed, rule, wd, idx, findings_path=None):
        self.prop, self.tier, self.seed, self.idx = prop, tier, seed, idx
        self.ev = common.Evidence(prop, level, tier, seed, rule)
        self.findings = common.Findings(findings_path)
        self.open_sigs = set(e["sig"] for e in self.findings.open_for(prop))
        self.wd = wd
        self.n = 0
        self.state = {}
        self.reported = set()

    def tag(self):
        self.n += 1
        return "w%dc%d" % (self.idx, self.n)

    def known(self, sig):
        """True if a failing case with this root-cause signature must not be raised: it is an open finding (counted), or
        this worker has already reported and minimised one (counted as class, exploration continues for other causes)."""
        k = self.findings.match(self.prop, sig)
        if k:
            self.ev.known_hit(k["id"])
            return True
        if sig in self.reported:
            self.ev.bump("further-failing-case-of-reported-violation:" + str(sig)[:60])
            return True
        return False


MAX_ROUNDS = 4       # explorations per worker: after a violation the worker goes on with that signature muted
SHRINK_BUDGET = 45   # seconds of minimisation per worker after its first failing case


def _budgeted(fn):
    """Bound the time Hypothesis spends shrinking: once SHRINK_BUDGET has passed since the first failing case, inputs not
    seen before are passed without being executed (so the shrinker stops making progress), inputs seen before keep their
    recorded outcome (so the final replay of the minimal case fails again).  Only the quality of minimisation depends on
    the clock, never a verdict."""
    cache = {}
    t_fail = [None]

    def test(x):
        key = common.chash(x)
        if key in cache:
            if cache[key] is not None:
                raise Found(cache[key])
            return
        if t_fail[0] is not None and time.time() - t_fail[0] > SHRINK_BUDGET:
            return
        try:
            fn(x)
            cache[key] = None
        except Found as f:
            cache[key] = f.payload
            if t_fail[0] is None:
                t_fail[0] = time.time()
            raise
    return test


def findings_path():
    return os.environ.get("VERIF_FINDINGS") or None


def run(prop, level, rule, tier, seed, make_strategy, case_fn, confirm_fn, replay_files, workers, n_examples, min_cases,
        pre=None, post=None, extra_cases=None):
    """extra_cases(ev, root) -> list of found payloads: deterministic cases run in the parent (e.g. shipped schemas)."""
    ev = common.Evidence(prop, level, tier, seed, rule)
    fpath = findings_path()
    findings = common.Findings(fpath)
    root = common.scratch(prop.lower())
    if pre:
        pre(ev, root)

    def worker(i):
        wd = os.path.join(root, "w%02d" % i)
        os.makedirs(wd, exist_ok=True)
        ctx = Ctx(prop, level, tier, common.sub_seed(seed, prop, "worker", i), rule, wd, i, fpath)
        founds = []
        for rnd in range(MAX_ROUNDS):
            found = farm.explore(_budgeted(lambda x: case_fn(ctx, x)), make_strategy(ctx), n_examples,
                                 common.sub_seed(ctx.seed, "round", rnd))
            if not found:
                break
            # keep exploring (for other root causes and for complete evidence) with this signature muted
            founds.append(found)
            ctx.reported.add(found.get("sig"))
        shutil.rmtree(wd, ignore_errors=True)
        return {"ev": ctx.ev.partial(), "found": founds, "idx": i}

    results = common.pmap(common.guarded(worker), list(range(workers)), workers)
    rc = 0
    founds = []
    for i, (status, res) in enumerate(results):
        if status != "ok":
            print("machinery error in worker %d:\n%s" % (i, res))
            rc = 3
            continue
        ev.merge(res["ev"])
        founds += res["found"]
    if extra_cases:
        founds += extra_cases(ev, root) or []
    seen_sigs = set()
    for f in founds:
        wd = os.path.join(root, "confirm")
        ok = True
        for _k in range(3):
            shutil.rmtree(wd, ignore_errors=True)
            os.makedirs(wd)
            if not confirm_fn(f, wd):
                ok = False
                break
        if not ok:
            ev.inconclusive.append("failure did not reproduce 3x: " + str(f.get("what"))[:300])
            continue
        ev.violations += 1
        if f.get("sig") in seen_sigs:
            continue
        seen_sigs.add(f.get("sig"))
        d = common.save_replay(prop, replay_files(f), {"property": prop, "what": f.get("what"), "sig": f.get("sig"),
                                                       "seed": seed, "tier": tier})
        common.print_violation(prop, d, f.get("what", ""))
        rc = max(rc, 1)
    for fid in sorted(ev.known):
        e = [x for x in findings.entries if x.get("id") == fid and x.get("property") == prop]
        common.print_known(prop, "%s: %s" % (fid, e[0]["what"] if e else ""))
    if post:
        post(ev)
    if ev.evaluations < min_cases and rc == 0:
        print("machinery failure: only %d cases executed (expected >= %d)" % (ev.evaluations, min_cases))
        rc = 3
    ev.write()
    shutil.rmtree(root, ignore_errors=True)
    if TOOL_ENV.get("LD_LIBRARY_PATH"):
        shutil.rmtree(os.path.dirname(TOOL_ENV["LD_LIBRARY_PATH"]), ignore_errors=True)
    print("%s %s: %d cases, %d distinct non-trivial, %d violations, known=%s, excluded=%s, %.0fs" % (
        prop, tier, ev.evaluations, len(ev.nontrivial) + ev.nontrivial_counted, ev.violations, ev.known,
        sum(ev.excluded.values()), time.time() - ev.t0))
    return rc
