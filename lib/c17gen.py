"""Wrapper strategies around expgen.schemas() for the generator-only checks (C17, C18, C12):

* enrich():  extra *type shapes* appended to a codegen-profile schema (renamed selects, renames of renames, aggregates of
  selects / renamed enumerations / aggregate types, selects of renamed types, names that differ from an existing one only
  by a suffix such as _var / _ptr / _agg or by '_'), declaration-site case noise (EXPRESS is case-insensitive).
* files():   an EXPRESS *file*: 1..3 schemas, with USE FROM / REFERENCE FROM between them and declarations that use the
  imported items, plus the name and place of the file (the scanner derives the directory / library name from them).
* render():  file model -> EXPRESS text.

Everything is valid by construction (checked by lib/c17gen.py selftest against check-express).  expgen.py is not modified."""
from hypothesis import strategies as st

import expgen
import exprender
from expmodel import SIMPLE, T, named, agg, Schema

SUFFIXES = ["_var", "_1", "x", "_agg", "_ptr", "_c", "_vars", "_t", "2", "_h", "_cc", "s"]


def all_identifiers(d):
    """Every identifier declared anywhere in schema d (lower case)."""
    out = {d["name"].lower()}
    for t in d["types"]:
        out.add(t["name"].lower())
        for i in t.get("items", []):
            out.add(i.lower())
    for e in d["entities"]:
        out.add(e["name"].lower())
        for k in ("attrs", "derived", "inverse"):
            for a in e[k]:
                out.add(a["name"].lower())
        for u in e["unique"] + e["where"]:
            if u.get("label"):
                out.add(u["label"].lower())
    for i in d.get("interfaces", []):
        for it in i.get("items") or []:
            out.add((it.get("as") or it["name"]).lower())
    return out


def scope_identifiers(d):
    """Identifiers visible at schema level (types, entities, enumeration items, imported names)."""
    out = {d["name"].lower()}
    for t in d["types"]:
        out.add(t["name"].lower())
        for i in t.get("items", []):
            out.add(i.lower())
    for e in d["entities"]:
        out.add(e["name"].lower())
    for i in d.get("interfaces", []):
        for it in i.get("items") or []:
            out.add((it.get("as") or it["name"]).lower())
    return out


def kind_of(sch, name):
    """'entity' | 'enum' | 'select' | 'simple' | 'agg' for a name declared in Schema sch (following renames)."""
    r = sch.resolve(named(name))
    return r[0]


def _fresh(draw, used, bases, prefix):
    """A new identifier: an existing one plus a suffix / minus its underscores, else <prefix><n>."""
    for _ in range(8):
        if bases and draw(st.integers(0, 9)) < 7:
            b = draw(st.sampled_from(bases)).lower()
            if "_" in b.strip("_") and draw(st.integers(0, 9)) < 3:
                n = b.replace("_", "")
            else:
                n = b + draw(st.sampled_from(SUFFIXES))
        else:
            n = prefix + str(draw(st.integers(0, 99)))
        if n and n[0].isalpha() and n not in used and n not in expgen.EXPRESS_RESERVED:
            used.add(n)
            return n
    k = len(used)
    while "%s%d" % (prefix, k) in used:
        k += 1
    n = "%s%d" % (prefix, k)
    used.add(n)
    return n


def _noise(draw, n):
    c = draw(st.integers(0, 5))
    if c < 3:
        return n[0].upper() + n[1:]
    if c < 5:
        return n.upper()
    return "".join(ch.upper() if i % 2 else ch for i, ch in enumerate(n))


def enrich(draw, d, cfg):
    """Append extra type shapes + attributes using them; apply declaration-site case noise.  Mutates and returns d."""
    used = all_identifiers(d)
    sch = Schema(d)
    by_kind = {"enum": [], "select": [], "simple": [], "agg": [], "entity": [e["name"] for e in d["entities"]]}
    for t in d["types"]:
        by_kind[kind_of(sch, t["name"])].append(t["name"])
    bases = [t["name"] for t in d["types"]] + [e["name"] for e in d["entities"]]
    shapes = cfg.get("extra_shapes", ["sel_alias", "sel_alias", "enum_alias", "agg_of_named", "agg_of_named", "sel_of_named",
                                      "def_of_def", "enum", "select"])
    n_extra = draw(st.integers(0, cfg.get("max_extra_types", 5)))
    added = []
    for _ in range(n_extra):
        shape = draw(st.sampled_from(shapes))
        t = None
        if shape == "sel_alias" and by_kind["select"]:
            name = _fresh(draw, used, bases, "sa")
            t = {"name": name, "kind": "defined", "of": named(draw(st.sampled_from(by_kind["select"]))), "alias_of_select": True}
            by_kind["select"].append(name)
        elif shape == "enum_alias" and by_kind["enum"]:
            name = _fresh(draw, used, bases, "ea")
            t = {"name": name, "kind": "defined", "of": named(draw(st.sampled_from(by_kind["enum"]))), "alias_of_enum": True}
            by_kind["enum"].append(name)
        elif shape == "agg_of_named":
            cands = by_kind["select"] + by_kind["enum"] + by_kind["agg"] + by_kind["simple"] + by_kind["entity"]
            if cands:
                name = _fresh(draw, used, bases, "ag")
                kind = draw(st.sampled_from(["LIST", "SET", "BAG", "ARRAY"]))
                lo = draw(st.integers(0, 2))
                hi = lo + draw(st.integers(0, 3)) if kind == "ARRAY" else draw(st.sampled_from([None, lo + 2]))
                of = named(draw(st.sampled_from(cands)))
                if draw(st.integers(0, 9)) < 2:
                    of = agg("LIST", of, 0, None)
                t = {"name": name, "kind": "defined", "of": agg(kind, of, lo, hi)}
                by_kind["agg"].append(name)
        elif shape == "sel_of_named":
            cands = by_kind["select"] + by_kind["enum"] + by_kind["agg"] + by_kind["simple"] + by_kind["entity"]
            if cands:
                name = _fresh(draw, used, bases, "sl")
                k = draw(st.integers(1, min(4, len(cands))))
                t = {"name": name, "kind": "select",
                     "members": draw(st.lists(st.sampled_from(cands), min_size=k, max_size=k, unique=True))}
                by_kind["select"].append(name)
        elif shape == "def_of_def" and by_kind["simple"]:
            name = _fresh(draw, used, bases, "dd")
            t = {"name": name, "kind": "defined", "of": named(draw(st.sampled_from(by_kind["simple"])))}
            by_kind["simple"].append(name)
        elif shape == "enum":
            name = _fresh(draw, used, bases, "en")
            items = [_fresh(draw, used, [], "it") for _i in range(draw(st.integers(1, 3)))]
            t = {"name": name, "kind": "enum", "items": items}
            by_kind["enum"].append(name)
        elif shape == "select" and by_kind["entity"]:
            name = _fresh(draw, used, bases, "se")
            t = {"name": name, "kind": "select", "members": [draw(st.sampled_from(by_kind["entity"]))]}
            by_kind["select"].append(name)
        if t is not None:
            d["types"].append(t)
            added.append(t)
            bases.append(t["name"])
    # attributes that use the added types
    for t in added:
        if d["entities"] and draw(st.integers(0, 9)) < 6:
            e = draw(st.sampled_from(d["entities"]))
            an = _fresh(draw, used, [], "xa")
            tr = named(t["name"])
            if draw(st.integers(0, 9)) < 2:
                tr = agg("LIST", tr, 0, None)
            e["attrs"].append({"name": an, "type": tr, "optional": draw(st.booleans()), "redecl": None})
    # declaration-site case noise
    p = cfg.get("p_decl_case", 20)
    noisy = 0
    for x in d["types"] + d["entities"]:
        if draw(st.integers(0, 99)) < p:
            x["name"] = _noise(draw, x["name"])
            noisy += 1
    if draw(st.integers(0, 99)) < p:
        d["name"] = _noise(draw, d["name"])
        noisy += 1
    d.setdefault("tags", {})["case_noise"] = noisy
    d["tags"]["extra_types"] = [t["name"] for t in added]
    # identifiers as long as the longest of the shipped schemas (74 characters) and beyond: the scanner formats its file lists in
    # fixed-width columns and both programs build file names in fixed buffers
    longn = 0
    if draw(st.integers(0, 99)) < cfg.get("p_long_names", 12):
        pool = [x["name"] for x in d["types"] + d["entities"]]
        k = min(len(pool), draw(st.integers(1, 3)))
        mapping = {}
        for nm in draw(st.permutations(pool))[:k]:
            ln = draw(st.sampled_from([60, 74, 80, 84, 86, 88, 90, 100, 101, 120, 160]))
            base = nm.lower()
            new = (base + "_" + "long_identifier_part_" * 10)[:ln].rstrip("_")
            if len(new) > len(base) and new not in used and new not in mapping.values():
                mapping[base] = new
                used.add(new)
        if mapping:
            rename_identifiers(d, lambda n: mapping.get(n, n))
            d["tags"]["extra_types"] = [mapping.get(n.lower(), n) for n in d["tags"]["extra_types"]]
            longn = len(mapping)
    d["tags"]["long_names"] = longn
    return d


@st.composite
def single(draw, cfg=None):
    cfg = dict(cfg or {})
    d = draw(expgen.schemas(cfg))
    return enrich(draw, d, cfg)


# ------------------------------------------------------------------------------------------------------------------
# multi-schema files

STEMS = ["s", "ab", "x1", "schema", "a_rather_long_file_name_for_this_schema_file_v2", "@name", "@NAME", "@name_x"]
DATA_DIRS = [None, None, None, "ap", "abc", "ap203x", "a_long_directory_name_that_is_longer"]


def split_prone(sch, name):
    """Would an attribute of / a rename of / a select over item `name` of another schema make exp2cxx's multi-pass logic
    (multpass.c) wait for that schema?  True for enumerations and selects (also as base of a 1-D aggregate type)."""
    k = kind_of(sch, name)
    if k in ("enum", "select"):
        return True
    if k == "agg":
        tr = sch.resolve(named(name))[1]
        of = tr["of"]
        if of["k"] == "named" and not sch.is_entity(of["name"]):
            return kind_of(sch, of["name"]) in ("enum", "select")
    return False


@st.composite
def files(draw, cfg=None):
    """{"schemas":[d...], "stem", "datadir", "prone":bool, "tags":[...]}; each d may carry "interfaces":
    [{"kind":"USE"|"REFERENCE","from":schema name,"items":[{"name","as"}]|None}]."""
    cfg = dict(cfg or {})
    p_multi = cfg.get("p_multi", 45)
    n = 1
    if draw(st.integers(0, 99)) < p_multi:
        n = draw(st.sampled_from([2, 2, 3]))
    scfg = dict(cfg)
    if n > 1:
        scfg.setdefault("max_ent", 5)
        scfg.setdefault("max_typ", 5)
        scfg.setdefault("max_extra_types", 3)
    schemas = []
    names = set()
    for k in range(n):
        d = draw(single(scfg))
        if cfg.get("expr_bounds") and draw(st.integers(0, 99)) < cfg.get("p_expr_bounds", 60):
            decorate_bounds(draw, d, cfg)
        while d["name"].lower() in names:
            d["name"] = d["name"] + "_" + "bcd"[k % 3]
        names.add(d["name"].lower())
        d["interfaces"] = []
        schemas.append(d)
    prone = False
    tags = []
    excluded = []
    if n > 1:
        prone = draw(st.integers(0, 99)) < cfg.get("p_prone", 50)
        if prone and cfg.get("prone_excluded") and draw(st.integers(0, 99)) >= cfg.get("p_probe", 15):
            # shape of an open finding: excluded by construction (counted), except for a few probes
            prone = False
            excluded.append(cfg["prone_excluded"])
        for k, d in enumerate(schemas):
            _interfaces(draw, k, schemas, prone, tags, cfg)
    stem = draw(st.sampled_from(cfg.get("stems", STEMS)))
    first = schemas[0]["name"]
    stem = stem.replace("@NAME", first.upper()).replace("@name", first.lower())
    datadir = draw(st.sampled_from(cfg.get("data_dirs", DATA_DIRS)))
    if n > 1 and cfg.get("shortstem_excluded"):
        longest = max(len(d["name"]) for d in schemas)
        shared = len(stem) < longest or (datadir and 2 < len(datadir) < longest)
        if shared and draw(st.integers(0, 99)) >= cfg.get("p_probe_stem", 15):
            stem = "a_rather_long_file_name_for_this_schema_file_v2_" + "x" * longest
            datadir = None
            excluded.append(cfg["shortstem_excluded"])
    return {"schemas": schemas, "stem": stem, "datadir": datadir, "prone": prone, "tags": sorted(set(tags)), "excluded": excluded}


def _interfaces(draw, k, schemas, prone, tags, cfg):
    d = schemas[k]
    others = [j for j in range(len(schemas)) if j != k]
    n_src = draw(st.integers(0, len(others)))
    if n_src == 0 and k == len(schemas) - 1 and not any(s["interfaces"] for s in schemas):
        n_src = 1       # at least one interface per multi-schema file
    if n_src == 0:
        return
    srcs = draw(st.lists(st.sampled_from(others), min_size=n_src, max_size=n_src, unique=True))
    scope = scope_identifiers(d)
    used = set()
    for x in schemas:
        used |= all_identifiers(x)      # names added here must be new in every schema (they meet through inheritance)
    for j in srcs:
        src = schemas[j]
        ssch = _LooseSchema(src)
        # importable: declarations of src whose kind can be determined inside src (not depending on src's own imports)
        cands = []
        for t in src["types"]:
            if t.get("foreign") or _expr_bound(t.get("of")):
                # (a type whose bounds name CONSTANTs/FUNCTIONs of its schema is rejected by libexpress when imported)
                continue
            cands.append(t["name"])
        for e in src["entities"]:
            if e.get("foreign"):
                continue
            cands.append(e["name"])
        if not cands:
            continue
        kind = draw(st.sampled_from(["USE", "USE", "REFERENCE"]))
        m = draw(st.integers(1, min(4, len(cands))))
        picked = draw(st.lists(st.sampled_from(cands), min_size=m, max_size=m, unique=True))
        items = []
        for nm_ in picked:
            k_ = kind_of(ssch, nm_)
            if not prone and split_prone(ssch, nm_):
                continue
            local = nm_.lower()
            alias = None
            if draw(st.integers(0, 99)) < cfg.get("p_as", 15):
                alias = _fresh(draw, used, [nm_], "im")
                local = alias
            # an imported enumeration brings its items into scope
            extra = []
            if k_ == "enum":
                extra = [i.lower() for i in ssch.resolve(named(nm_))[2]]
            if local in scope or any(x in scope for x in extra):
                continue
            scope.add(local)
            scope.update(extra)
            used.add(local)
            items.append({"name": nm_.lower(), "as": alias, "kind": k_})
        if not items:
            continue
        d["interfaces"].append({"kind": kind, "from": src["name"].lower(), "items": items})
        tags.append(kind.lower() + "-from")
        if any(it["as"] for it in items):
            tags.append("import-renamed")
        # declarations that use the imported items
        for it in items:
            local = it["as"] or it["name"]
            uses = []
            if it["kind"] == "entity":
                uses = ["attr", "attr", "agg_attr"] + (["supertype", "supertype", "select_member"] if prone else [])
            elif it["kind"] in ("enum", "select"):
                uses = ["attr", "agg_attr", "select_member", "rename"]        # only reached when prone
            else:
                uses = ["attr", "attr", "agg_attr", "rename_plain"]
            use = draw(st.sampled_from(uses))
            tags.append("import-%s-as-%s" % (it["kind"], use))
            if use in ("attr", "agg_attr"):
                tr = named(local)
                if use == "agg_attr":
                    tr = agg(draw(st.sampled_from(["LIST", "SET"])), tr, 0, None)
                if d["entities"] and draw(st.booleans()):
                    e = draw(st.sampled_from([e for e in d["entities"]]))
                else:
                    e = _new_entity(draw, d, used, scope, [])
                e["attrs"].append({"name": _fresh(draw, used, [], "fa"), "type": tr, "optional": draw(st.booleans()), "redecl": None})
            elif use == "supertype":
                _new_entity(draw, d, used, scope, [local])
            elif use == "select_member":
                nm2 = _fresh(draw, used, [local], "fs")
                scope.add(nm2)
                d["types"].append({"name": nm2, "kind": "select", "members": [local], "foreign": True})
            elif use in ("rename", "rename_plain"):
                nm2 = _fresh(draw, used, [local], "fr")
                scope.add(nm2)
                d["types"].append({"name": nm2, "kind": "defined", "of": named(local), "foreign": True})


def _expr_bound(tr):
    while tr is not None and tr.get("k") == "agg":
        if isinstance(tr["hi"], str):
            return True
        tr = tr["of"]
    return False


def _new_entity(draw, d, used, scope, supers):
    n = _fresh(draw, used, [], "fe")
    scope.add(n)
    e = {"name": n, "supers": list(supers), "abstract": False, "superexpr": None, "attrs": [], "derived": [], "inverse": [],
         "unique": [], "where": [], "foreign": bool(supers)}
    if draw(st.booleans()):
        e["attrs"].append({"name": _fresh(draw, used, [], "fa"), "type": T("INTEGER"), "optional": False, "redecl": None})
    d["entities"].append(e)
    return e


class _LooseSchema(Schema):
    """Schema view that tolerates names declared elsewhere (imported): they resolve to ("foreign", name)."""

    def __init__(self, d):
        self.d = d
        self.name = d["name"]
        self.types = {t["name"].lower(): t for t in d["types"]}
        self.entities = {e["name"].lower(): e for e in d["entities"]}
        self.order = [e["name"].lower() for e in d["entities"]]
        self.subs = {n: [] for n in self.order}
        for e in d["entities"]:
            for s in e["supers"]:
                if s.lower() in self.subs:
                    self.subs[s.lower()].append(e["name"].lower())

    def resolve(self, tr):
        while True:
            if tr["k"] in SIMPLE:
                return ("simple", tr["k"])
            if tr["k"] == "agg":
                return ("agg", tr)
            n = tr["name"].lower()
            if n in self.entities:
                return ("entity", n)
            if n not in self.types:
                return ("foreign", n)
            t = self.types[n]
            if t["kind"] == "enum":
                return ("enum", n, t["items"])
            if t["kind"] == "select":
                return ("select", n)
            tr = t["of"]


def rename_identifiers(d, f):
    """Apply f (lower-case identifier -> identifier) to every identifier occurrence of schema model d (in place).
    f must be injective on the identifiers of d and keep non-identifiers unchanged."""
    import re as _re

    def g(n):
        m = f(n.lower())
        return n if m == n.lower() else m

    def tr(t):
        if t["k"] == "named":
            t["name"] = g(t["name"])
        elif t["k"] == "agg":
            tr(t["of"])

    def sx(x):
        if isinstance(x, str):
            return g(x)
        x["args"] = [sx(a) for a in x["args"]]
        return x

    def expr(text):
        return _re.sub(r"[A-Za-z][A-Za-z0-9_]*", lambda m: g(m.group(0)) if m.group(0).lower() == m.group(0) else m.group(0), text)
    d["name"] = g(d["name"])
    for t in d["types"]:
        t["name"] = g(t["name"])
        if "items" in t:
            t["items"] = [g(i) for i in t["items"]]
        if "members" in t:
            t["members"] = [g(i) for i in t["members"]]
        if "of" in t:
            tr(t["of"])
    for e in d["entities"]:
        e["name"] = g(e["name"])
        e["supers"] = [g(x) for x in e["supers"]]
        if e.get("superexpr") is not None:
            e["superexpr"] = sx(e["superexpr"])
        for a in e["attrs"] + e["derived"]:
            a["name"] = g(a["name"])
            tr(a["type"])
            if a.get("redecl"):
                a["redecl"] = g(a["redecl"])
        for a in e["inverse"]:
            a["name"] = g(a["name"])
            a["entity"] = g(a["entity"])
            a["attr"] = g(a["attr"])
        for u in e["unique"]:
            u["attrs"] = [g(x) for x in u["attrs"]]
        for w in e["where"]:
            w["expr"] = expr(w["expr"])
    return d


# ------------------------------------------------------------------------------------------------------------------
# aggregate bounds that are not integer literals (C12: these reach run-time dependent paths of the generators)

def decorate_bounds(draw, d, cfg):
    """Replace upper bounds of some aggregates of d by a CONSTANT, an arithmetic expression, a function call or an
    attribute of the entity (forms of test/unitary_schemas/array_bounds_expr.exp); adds d["prelude"] (CONSTANT block) and
    d["postlude"] (FUNCTION).  Upper bounds only: exprender prints the lower bound with %d.  Mutates and returns d."""
    used = all_identifiers(d)
    consts = []      # (name, expr text)
    kinds = set()
    need_func = [False]
    fname = [None]

    def const(value):
        n = _fresh(draw, used, [], "cmax")
        sel = draw(st.integers(0, 19))
        if consts and sel < 5:
            base = draw(st.sampled_from(consts))[0]
            consts.append((n, "%s + %d" % (base, draw(st.integers(0, 3)))))
            kinds.add("bound:constant-defined-by-expression")
        elif consts and sel < 7:
            consts.append((n, draw(st.sampled_from(consts))[0]))          # an alias of another constant
            kinds.add("bound:constant-alias")
        elif sel < 10:
            consts.append((n, "?"))                                        # the indeterminate value: an open upper bound
            kinds.add("bound:constant-indeterminate")
        elif sel < 12:
            consts.append((n, draw(st.sampled_from(["-(-%d)" % value, "%d * 1" % value, "(%d)" % value, "%d DIV 1" % value]))))
            kinds.add("bound:constant-defined-by-expression")
        else:
            consts.append((n, str(value)))
        return n

    def new_hi(tr, ent, depth=0):
        lo = tr["lo"]
        # SELF\\e.a is accepted by the parser in the bounds of an outermost ARRAY only (libexpress resolves other bounds eagerly and fails)
        forms = ["const", "const", "arith", "funcall"] + (["attr", "attr"] if ent is not None else []) + \
                (["selfattr", "selfattr"] if ent is not None and tr["agg"] == "ARRAY" and depth == 0 else [])
        form = draw(st.sampled_from(cfg.get("bound_forms", forms)))
        if form not in forms:
            form = "const"
        v = max(lo, 0) + draw(st.integers(1, 6))
        if form == "const":
            kinds.add("bound:constant")
            return const(v)
        if form == "arith":
            kinds.add("bound:arithmetic-expression")
            if consts and draw(st.booleans()):
                return "%s %s %d" % (draw(st.sampled_from(consts))[0], draw(st.sampled_from(["+", "*"])), draw(st.integers(1, 3)))
            return "%d + %d" % (v, draw(st.integers(0, 4)))
        if form == "funcall":
            kinds.add("bound:function-call")
            need_func[0] = True
            if fname[0] is None:
                fname[0] = _fresh(draw, used, [], "fbound")
            return "%s(%d)" % (fname[0], v)
        # attribute of the entity
        ints = [a for a in ent["attrs"] if a["type"]["k"] == "INTEGER" and not a.get("redecl") and not a["optional"]]
        if ints:
            a = draw(st.sampled_from(ints))
        else:
            a = {"name": _fresh(draw, used, [], "nb"), "type": T("INTEGER"), "optional": False, "redecl": None}
            ent["attrs"].insert(0, a)
        if form == "selfattr":
            kinds.add("bound:SELF\\entity.attribute")
            return "SELF\\%s.%s" % (ent["name"].lower(), a["name"].lower())
        kinds.add("bound:attribute")
        return a["name"].lower()

    def visit(tr, ent, depth=0):
        if tr["k"] != "agg":
            return
        if draw(st.integers(0, 99)) < cfg.get("p_bound_expr", 40):
            tr["hi"] = new_hi(tr, ent, depth)
        visit(tr["of"], ent, depth + 1)
    import copy
    for t in d["types"]:
        if t["kind"] == "defined":
            t["of"] = copy.deepcopy(t["of"])
            visit(t["of"], None)
    for e in d["entities"]:
        for a in list(e["attrs"]):
            if a.get("redecl"):
                continue        # (expgen shares the type object with the re-declared attribute)
            a["type"] = copy.deepcopy(a["type"])
            visit(a["type"], e)
    if not kinds and cfg.get("force_bound_expr", True) and d["entities"]:
        e = d["entities"][0]
        tr = agg("LIST", T("REAL"), 1, None)
        tr["hi"] = new_hi(tr, e)
        e["attrs"].append({"name": _fresh(draw, used, [], "xb"), "type": tr, "optional": False, "redecl": None})
    if d["entities"] and draw(st.integers(0, 99)) < cfg.get("p_selfattr_array", 25):
        e = draw(st.sampled_from(d["entities"]))
        tr = agg("ARRAY", T("INTEGER"), 1, None)
        ints = [a for a in e["attrs"] if a["type"]["k"] == "INTEGER" and not a.get("redecl") and not a["optional"]]
        if not ints:
            ints = [{"name": _fresh(draw, used, [], "nb"), "type": T("INTEGER"), "optional": False, "redecl": None}]
            e["attrs"].insert(0, ints[0])
        tr["hi"] = "SELF\\%s.%s" % (e["name"].lower(), ints[0]["name"].lower())
        kinds.add("bound:SELF\\entity.attribute")
        e["attrs"].append({"name": _fresh(draw, used, [], "xb"), "type": tr, "optional": False, "redecl": None})
    pre = ""
    if consts:
        pre = "CONSTANT\n" + "\n".join("  %s : INTEGER := %s;" % c for c in consts) + "\nEND_CONSTANT;\n"
    if need_func[0]:
        # declared before its first use: libexpress resolves bounds of TYPEs in declaration order
        pre += "\nFUNCTION %s(x : INTEGER) : INTEGER;\n  RETURN (x + 1);\nEND_FUNCTION;\n" % fname[0]
    if pre:
        d["prelude"] = pre
    d.setdefault("tags", {})["bounds"] = sorted(kinds)
    return d


def render_schema(d):
    text = exprender.schema(d)
    if not (d.get("interfaces") or d.get("prelude") or d.get("postlude")):
        return text
    lines = text.split("\n")
    if d.get("postlude"):
        k = max(i for i, l in enumerate(lines) if l.startswith("END_SCHEMA;"))
        lines = lines[:k] + d["postlude"].split("\n") + lines[k:]
    if d.get("prelude"):
        lines = lines[:1] + [""] + d["prelude"].split("\n") + lines[1:]
    if not d.get("interfaces"):
        return "\n".join(lines)
    ins = []
    for i in d["interfaces"]:
        s = "%s FROM %s" % (i["kind"], i["from"])
        if i.get("items"):
            s += " (" + ", ".join(it["name"] + (" AS " + it["as"] if it.get("as") else "") for it in i["items"]) + ")"
        ins.append(s + ";")
    return "\n".join(lines[:1] + ins + lines[1:])


def render(f):
    return "\n".join(render_schema(d) for d in f["schemas"])


def expected_files(d):
    """Model's expectation (NOT asserted by C17, used for classification): per-entity and per-type file stems."""
    def cap(n):
        n = n.lower()
        return n[0].upper() + n[1:]
    ents = set("Sdai" + cap(e["name"]) for e in d["entities"])
    typs = set()
    for t in d["types"]:
        if t["kind"] == "enum":
            typs.add("Sdai" + cap(t["name"]) + "_var")
        elif t["kind"] == "select":
            typs.add("Sdai" + cap(t["name"]))
    return ents, typs


def type_classes(d):
    """Shape classes of the defined types of d (for the evidence histogram)."""
    sch = _LooseSchema(d)
    out = set()
    for t in d["types"]:
        if t["kind"] == "enum":
            out.add("type:enumeration")
        elif t["kind"] == "select":
            out.add("type:select")
            for m in t["members"]:
                if m.lower() in sch.types and sch.types[m.lower()]["kind"] == "select":
                    out.add("type:select-of-select")
        else:
            of = t["of"]
            if of["k"] in SIMPLE:
                out.add("type:simple(no file)")
            elif of["k"] == "agg":
                out.add("type:aggregate(no file)")
                b = of
                while b["k"] == "agg":
                    b = b["of"]
                if b["k"] == "named" and not sch.is_entity(b["name"]):
                    out.add("type:aggregate-of-defined-type")
            else:
                r = sch.resolve(of)
                if r[0] == "enum":
                    out.add("type:renamed-enumeration(no file)")
                elif r[0] == "select":
                    out.add("type:renamed-select(no file)")
                elif r[0] == "foreign":
                    out.add("type:rename-of-imported")
                else:
                    out.add("type:rename-of-simple/aggregate(no file)")
    return out


if __name__ == "__main__":
    # selftest: every generated file is accepted by check-express
    import os
    import sys
    import collections
    import build
    import common
    import farm
    seed = int(sys.argv[1]) if len(sys.argv) > 1 else 1
    n = int(sys.argv[2]) if len(sys.argv) > 2 else 100
    cfg = {"kw_py": True, "expr_bounds": True} if len(sys.argv) > 3 else {}
    from hypothesis import given, settings, seed as hseed, Phase, HealthCheck
    out = []

    @hseed(seed)
    @settings(max_examples=n, database=None, deadline=None, phases=[Phase.generate], suppress_health_check=list(HealthCheck))
    @given(files(cfg))
    def collect(f):
        out.append(f)
    collect()
    wd = common.scratch("c17gen-selftest")
    build.ensure("plain")
    bad = 0
    cls = collections.Counter()
    for i, f in enumerate(out):
        p = os.path.join(wd, "f%d.exp" % i)
        open(p, "w").write(render(f))
        rc, o, e, _ = common.run([build.tool("plain", "check-express"), p], timeout=30)
        cls["schemas:%d" % len(f["schemas"])] += 1
        for t in f["tags"]:
            cls[t] += 1
        for d in f["schemas"]:
            for c in type_classes(d):
                cls[c] += 1
            for c in d.get("tags", {}).get("bounds", []):
                cls[c] += 1
        if rc != 0:
            bad += 1
            print("REJECTED", p, rc, (o + e)[-500:])
    print(len(out), "files,", bad, "rejected")
    for k, v in sorted(cls.items()):
        print("  %-50s %d" % (k, v))
