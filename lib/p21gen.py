"""Hypothesis strategy for conforming Part 21 populations of a schema model, plus rendering with layout
noise and comparison against parsed output (the oracle side of C01/C03/C10/C14/C15/C16).

population = {"header":{"description":[s],"level":s,"name":s,"time":s,"authors":[s],"orgs":[s],"pre":s,"orig":s,"auth":s,
                        "schema":NAME}, "instances":[inst]}
inst  = {"id":int, "complex":bool, "parts":[{"ent":lower_name,"vals":[value]}]}
value = ["i",int] | ["r",text] | ["n",text] | ["s",exchange_text] | ["b","T"|"F"] | ["l","T"|"F"|"U"] | ["x",hex]
      | ["e",ITEM] | ["ref",id] | ["agg",[value]] | ["typed",KEYWORD,value] | ["null"] | ["star"]
"""
from decimal import Decimal

from hypothesis import strategies as st

from expmodel import Schema


class Unsat(Exception):
    pass


# ------------------------------------------------------------------------------------------------
# literal strategies

_INT_EDGE = [0, 1, -1, 7, 10, 99, 100, 1000, 12345, 2**31 - 1, 2**31, -2**31, -2**31 - 1, 2**32, 10**9, 10**15,
             2**53, 2**53 + 1, 2**62, 2**63 - 2, -2**63 + 1, -(2**63)]
# LONG_MAX (2**63-1) is the library's documented in-band null sentinel: excluded by construction.


@st.composite
def ints(draw):
    c = draw(st.integers(0, 9))
    if c < 5:
        return draw(st.integers(-1000, 1000))
    if c < 8:
        return draw(st.sampled_from(_INT_EDGE)) + draw(st.sampled_from([0, 0, 1, -1])) if True else 0
    return draw(st.integers(-2**63 + 1, 2**63 - 2))


def _clamp_int(v):
    if v >= 2**63 - 1:
        return 2**63 - 2
    if v < -2**63:
        return -2**63
    return v


@st.composite
def real_texts(draw, max_digits=15):
    """A REAL token in the Part 21 grammar; <= max_digits significant digits; |value| in [1e-300, 1e300] or 0."""
    c = draw(st.integers(0, 19))
    sign = draw(st.sampled_from(["", "", "-", "+"]))
    if c == 0:
        return sign + draw(st.sampled_from(["0.", "0.0", "0.E0", "0.00"]))
    nd = draw(st.sampled_from([1, 1, 2, 3, 5, 8, 12, 15, max_digits]))
    nd = min(nd, max_digits)
    first = draw(st.integers(1, 9))
    rest = [draw(st.integers(0, 9)) for _ in range(nd - 1)]
    if c in (1, 2):
        rest = [9] * (nd - 1)
        first = 9
    digs = str(first) + "".join(str(d) for d in rest)
    # position of the decimal point inside digs
    pos = draw(st.integers(1, len(digs)))
    mant = digs[:pos] + "." + digs[pos:]
    form = draw(st.integers(0, 9))
    if form < 5:
        # plain, maybe with leading zeros form 0.00ddd
        if draw(st.integers(0, 9)) < 2:
            mant = "0." + "0" * draw(st.integers(0, 5)) + digs
        return sign + mant
    exp = draw(st.sampled_from([0, 1, -1, 2, 5, -5, 10, 15, 16, -16, 20, 37, 38, 39, -37, -38, -45, 100, -100, 200, -200, 290,
                                -290]))
    if form == 9:
        exp = draw(st.integers(-290, 290))
    # keep the magnitude within 1e-300..1e300
    mag = pos - 1 + exp
    if mag > 299:
        exp -= (mag - 299)
    if mag < -299:
        exp += (-299 - mag)
    es = draw(st.sampled_from(["", "+", ""])) if exp >= 0 else ""
    return sign + mant + "E" + es + (("%02d" % exp) if draw(st.booleans()) and exp >= 0 else str(exp))


_STR_PLAIN = "abcXYZ 019_-+=.,;:#()[]{}<>/*!?$%&@^~|`\""


@st.composite
def string_texts(draw, maxlen=12, plain=False):
    """Exchange-form string content (between the quotes). plain: no delimiter characters ( ) , ; and no quotes."""
    n = draw(st.sampled_from([0, 1, 1, 2, 3, 5, 8, maxlen]))
    out = []
    for _ in range(n):
        c = draw(st.integers(0, 29))
        if plain:
            out.append(draw(st.sampled_from("abcXYZ 019_-+=.:#[]{}<>!?$%&@^~|`")))
            continue
        if c < 20:
            out.append(draw(st.sampled_from(_STR_PLAIN)))
        elif c < 22:
            out.append("''")
        elif c < 24:
            out.append("\\\\")
        elif c < 25:
            # page = \S\ character, and `character` includes the apostrophe and the reverse solidus
            out.append("\\S\\" + draw(st.sampled_from("Aa0~ ''\\")))
        elif c < 26:
            out.append("\\X\\" + draw(st.sampled_from(["E9", "00", "7F", "A0", "FF"])))
        elif c < 27:
            out.append("\\X2\\" + "".join(draw(st.sampled_from(["03C0", "00E9", "4E2D", "FFFF"])) for _ in range(draw(st.integers(1, 2)))) + "\\X0\\")
        elif c < 28:
            out.append("\\X4\\" + draw(st.sampled_from(["0001F600", "00000041"])) + "\\X0\\")
        elif c < 29:
            out.append(draw(st.sampled_from(["#12", "/*", "*/", ");", "'')", "ENDSEC;", "\\PA\\"])))
        else:
            out.append(draw(st.sampled_from(["$", "*", "=", "&SCOPE"])))
    return "".join(out)


@st.composite
def binary_texts(draw):
    n = draw(st.integers(0, 6))
    hexd = "".join(draw(st.sampled_from("0123456789ABCDEF")) for _ in range(n))
    lead = draw(st.sampled_from("0123")) if n else "0"
    return lead + hexd


# ------------------------------------------------------------------------------------------------

class PopBuilder:
    def __init__(self, draw, schema_dict, cfg):
        self.draw = draw
        self.sch = Schema(schema_dict)
        self.cfg = cfg
        self.simple_ok = self.sch.instantiable_simple()
        self.complex_sets = None
        self.excluded = {}

    def excl(self, k):
        self.excluded[k] = self.excluded.get(k, 0) + 1

    # --- planning: which entity sets get instantiated
    def find_complex_sets(self):
        if self.complex_sets is not None:
            return self.complex_sets
        s = self.sch
        names = s.order
        found = []
        seen = set()
        n = len(names)
        # enumerate pairs / triples of entities, closure, test legality; bounded
        import itertools
        cnt = 0
        for k in (2, 3):
            for combo in itertools.combinations(names, k):
                cnt += 1
                if cnt > 600:
                    break
                S = frozenset(s.closure(combo))
                if S in seen:
                    continue
                seen.add(S)
                if len(s.leaves_of(S)) >= 2 and s.legal_set(S):
                    found.append(sorted(S))
        self.complex_sets = found
        return found

    def plan(self):
        draw, s, cfg = self.draw, self.sch, self.cfg
        n = draw(st.integers(cfg.get("min_inst", 1), cfg.get("max_inst", 12)))
        plan = []   # list of (members(sorted list), complex)
        cs = self.find_complex_sets() if cfg.get("complex", True) else []
        for _ in range(n):
            if cs and draw(st.integers(0, 99)) < cfg.get("p_complex", 20):
                plan.append((draw(st.sampled_from(cs)), True))
            elif self.simple_ok:
                e = draw(st.sampled_from(self.simple_ok))
                plan.append((s.p21_entity_order(e), False))
            elif cs:
                plan.append((draw(st.sampled_from(cs)), True))
        return plan

    def slots_of(self, members, complex_):
        s = self.sch
        if complex_:
            return [(p, s.part_slots(p, members)) for p in sorted(members, key=lambda x: x.upper())]
        leaf = members[-1]
        return [(leaf, s.p21_slots(leaf))]

    # --- value generation
    def candidates(self, ent):
        return [i for i, (m, _c) in enumerate(self.plan_) if ent.lower() in m]

    def value(self, tr, in_select=False, depth=0):
        draw, s = self.draw, self.sch
        r = s.resolve(tr)
        k = r[0]
        if k == "simple":
            return self.simple_value(r[1], depth + (1 if in_select else 0))
        if k == "enum":
            return ["e", draw(st.sampled_from(r[2])).upper()]
        if k == "entity":
            if depth >= 2 and self.cfg.get("no_nested_agg_refs"):
                self.excl("entity reference inside a nested (2+ level) aggregate (finding F49: not shifted by AppendExchangeFile)")
                raise Unsat("nested aggregate reference excluded")
            c = self.candidates(r[1])
            if not c:
                raise Unsat("no instance of " + r[1])
            return ["ref", self.ids[draw(st.sampled_from(c))]]
        if k == "agg":
            return self.agg_value(r[1], depth)
        if k == "select":
            leaves = s.select_leaves(r[1])
            order = draw(st.permutations(leaves)) if len(leaves) > 1 else leaves
            direct = s.select_direct_members(r[1])
            nested_leaves = [lf for lf in order if lf not in direct]
            if nested_leaves and len(nested_leaves) < len(order) and draw(st.integers(0, 99)) < self.cfg.get("p_nested_select_leaf", 35):
                # values that reach their member through a nested select take another path through the generated STEPread code
                order = nested_leaves + [lf for lf in order if lf in direct]
            for lf in order:
                if s.is_entity(lf):
                    c = self.candidates(lf)
                    if lf not in direct and not self.cfg.get("allow_nested_select_complex_ref", False):
                        # finding F43: an entity leaf reached through a nested select must not be a complex instance
                        c2 = [i for i in c if not self.plan_[i][1]]
                        if len(c2) < len(c):
                            self.excl("reference to a complex instance through a nested select (known finding F43)")
                        c = c2
                    if c:
                        return ["ref", self.ids[draw(st.sampled_from(c))]]
                    continue
                try:
                    v = self.value({"k": "named", "name": lf}, True, depth)
                except Unsat:
                    continue
                return ["typed", lf.upper(), v]
            raise Unsat("no realisable select member of " + r[1])
        raise AssertionError(k)

    def simple_value(self, kind, depth=0):
        draw = self.draw
        if kind == "INTEGER":
            return ["i", _clamp_int(draw(ints()))]
        if kind == "REAL":
            return ["r", draw(real_texts(self.cfg.get("real_digits", 15)))]
        if kind == "NUMBER":
            if draw(st.booleans()):
                v = str(draw(st.integers(-10**6, 10**6)))
                if depth > 0 and not self.cfg.get("allow_number_int_in_agg", False):
                    self.excl("integer-form NUMBER token inside an aggregate or typed select value (known finding F24)")
                    return ["n", v + "."]
                return ["n", v]
            return ["n", draw(real_texts(self.cfg.get("real_digits", 15)))]
        if kind == "STRING":
            if self.cfg.get("plain_strings"):
                self.excl("string containing a delimiter ( ) , ; or a quote (finding F46, fault recovery is not string aware)")
            return ["s", draw(string_texts(self.cfg.get("max_str", 12), self.cfg.get("plain_strings", False)))]
        if kind == "BOOLEAN":
            return ["b", draw(st.sampled_from("TF"))]
        if kind == "LOGICAL":
            return ["l", draw(st.sampled_from("TFU"))]
        if kind == "BINARY":
            return ["x", draw(binary_texts())]
        raise AssertionError(kind)

    def agg_value(self, tr, depth):
        draw = self.draw
        kind, lo, hi = tr["agg"], tr["lo"], tr["hi"]
        if kind == "ARRAY":
            k = hi - lo + 1
        else:
            top = lo + draw(st.sampled_from([0, 0, 1, 2, 3, self.cfg.get("max_agg_len", 6)]))
            if hi is not None:
                top = min(top, hi)
            k = top
            if lo == 0 and draw(st.integers(0, 9)) < 2:
                k = 0
        out = []
        need_distinct = kind == "SET" or tr.get("unique")
        tries = 0
        while len(out) < k:
            tries += 1
            if tries > 4 * k + 8:
                if len(out) >= lo and kind != "ARRAY":
                    break
                raise Unsat("cannot fill distinct aggregate")
            if kind == "ARRAY" and tr.get("optional") and draw(st.integers(0, 9)) < 3:
                if self.cfg.get("allow_array_null", False):
                    out.append(["null"])
                    continue
                self.excl("ARRAY-OF-OPTIONAL element left unset (known finding F16)")
            v = self.value(tr["of"], False, depth + 1)
            if need_distinct and any(_same(v, o) for o in out):
                continue
            out.append(v)
        return ["agg", out]

    def build(self):
        draw, cfg = self.draw, self.cfg
        self.plan_ = self.plan()
        # ids
        n = len(self.plan_)
        mode = draw(st.sampled_from(cfg.get("id_modes", ["dense", "dense", "sparse", "shuffled", "large"])))
        if mode == "dense":
            ids = list(range(1, n + 1))
        elif mode == "k1000":
            pool = list(range(995, 1006)) + list(range(1995, 2004)) + [1, 2, 999, 1000, 1001, 2999, 3000]
            pool = sorted(set(pool))
            ids = sorted(draw(st.lists(st.sampled_from(pool), min_size=min(n, len(pool)), max_size=min(n, len(pool)), unique=True)))
            while len(ids) < n:
                ids.append(ids[-1] + 1 if ids else 1)
        else:
            hi = 10**4 if mode != "large" else cfg.get("max_id", 2 * 10**9)
            ids = sorted(draw(st.lists(st.integers(1, hi), min_size=n, max_size=n, unique=True)))
            if mode == "shuffled" and n > 1:
                ids = list(draw(st.permutations(ids)))
        self.ids = ids
        # iterate: drop instances whose required references cannot be satisfied
        alive = list(range(n))
        insts = {}
        for _round in range(4):
            insts = {}
            dropped = False
            for i in list(alive):
                members, cx = self.plan_[i]
                try:
                    parts = []
                    for ent, slots in self.slots_of(members, cx):
                        vals = []
                        for sl in slots:
                            if sl["derived"]:
                                vals.append(["star"])
                            elif sl["optional"] and draw(st.integers(0, 9)) < 3:
                                vals.append(["null"])
                            else:
                                try:
                                    vals.append(self.value(sl["type"]))
                                except Unsat:
                                    if sl["optional"]:
                                        vals.append(["null"])
                                    else:
                                        raise
                        parts.append({"ent": ent, "vals": vals})
                    insts[i] = {"id": ids[i], "complex": cx, "parts": parts}
                except Unsat:
                    alive.remove(i)
                    self.plan_[i] = ([], cx)
                    dropped = True
            if not dropped:
                break
        else:
            # references may dangle after 4 rounds: keep only instances without refs to dropped ones
            pass
        live_ids = set(ids[i] for i in alive)
        out = []
        for i in alive:
            if i in insts and _refs_ok(insts[i], live_ids):
                out.append(insts[i])
        # a final consistency pass: all refs must point to emitted instances
        emitted = set(x["id"] for x in out)
        out = [x for x in out if _refs_ok(x, emitted)]
        emitted2 = set(x["id"] for x in out)
        while emitted2 != emitted:
            emitted = emitted2
            out = [x for x in out if _refs_ok(x, emitted)]
            emitted2 = set(x["id"] for x in out)
        header = self.header()
        return {"header": header, "instances": out}

    def header(self):
        draw = self.draw
        ss = string_texts(8)
        name = self.sch.name.upper()
        return {"description": draw(st.lists(ss, min_size=1, max_size=3)), "level": "2;1",
                "name": draw(ss), "time": "2020-01-02T03:04:05", "authors": draw(st.lists(ss, min_size=1, max_size=3)),
                "orgs": draw(st.lists(ss, min_size=1, max_size=2)), "pre": draw(ss), "orig": draw(ss), "auth": draw(ss),
                "schema": name}


def _same(a, b):
    return canon_value(a) == canon_value(b)


def _ids_in(v):
    t = v[0]
    if t == "ref":
        return [v[1]]
    if t == "agg":
        out = []
        for x in v[1]:
            out += _ids_in(x)
        return out
    if t == "typed":
        return _ids_in(v[2])
    return []


def inst_refs(inst):
    out = []
    for p in inst["parts"]:
        for v in p["vals"]:
            out += _ids_in(v)
    return out


def _refs_ok(inst, live):
    return all(r in live for r in inst_refs(inst))


@st.composite
def populations(draw, schema_dict, cfg=None, probe_cfg=None):
    """probe_cfg: optional overrides used for ~5% of the cases ("probes": shapes of open findings are allowed)."""
    cfg = dict(cfg or {})
    if probe_cfg and draw(st.integers(0, 19)) == 19:   # 19, not 0: shrinking moves away from probes
        cfg.update(probe_cfg)
        cfg["_probe"] = True
    b = PopBuilder(draw, schema_dict, cfg)
    pop = b.build()
    pop["excluded"] = b.excluded
    if cfg.get("_probe"):
        pop["probe"] = True
    return pop


def number_int_in_agg(pop):
    """Does the population contain an integer-form NUMBER token inside an aggregate? (shape of finding F24)"""
    def rec(v, depth):
        t = v[0]
        if t == "n":
            return depth > 0 and "." not in v[1]
        if t == "agg":
            return any(rec(x, depth + 1) for x in v[1])
        if t == "typed":
            return rec(v[2], depth + 1)
        return False
    return any(rec(v, 0) for i in pop["instances"] for p in i["parts"] for v in p["vals"])


def without_number_int_in_agg(pop):
    import copy
    pop = copy.deepcopy(pop)

    def rec(v, depth):
        t = v[0]
        if t == "n" and depth > 0 and "." not in v[1]:
            v[1] = v[1] + "."
        elif t == "agg":
            for x in v[1]:
                rec(x, depth + 1)
        elif t == "typed":
            rec(v[2], depth + 1)
    for i in pop["instances"]:
        for p in i["parts"]:
            for v in p["vals"]:
                rec(v, 0)
    return pop


# ------------------------------------------------------------------------------------------------
# canonical values / comparison with parsed output

def real_decimal(text):
    return Decimal(text.replace("E", "e") if not text.endswith(".") else text + "0")


def _dec(text):
    t = text
    if "E" in t:
        m, e = t.split("E")
        if m.endswith("."):
            m += "0"
        return Decimal(m + "E" + e)
    if t.endswith("."):
        t += "0"
    return Decimal(t)


def sig_digits(text):
    m = text.split("E")[0].lstrip("+-").replace(".", "").lstrip("0")
    return len(m.rstrip("0")) if m else 0


def canon_value(v):
    t = v[0]
    if t in ("r", "n"):
        return [t, str(_dec(v[1]).normalize())]
    if t == "agg":
        return ["agg", [canon_value(x) for x in v[1]]]
    if t == "typed":
        return ["typed", v[1], canon_value(v[2])]
    return list(v)


def reals_equal(expected_text, got_text):
    """Equal to 15 significant digits. For inputs with <= 15 significant digits this is exact equality."""
    a, b = _dec(expected_text), _dec(got_text)
    if a == b:
        return True
    if sig_digits(expected_text) <= 15:
        return False
    if a == 0 or b == 0:
        return False
    e = a.adjusted()
    return abs(a - b) <= Decimal(6) * Decimal(10) ** (e - 15)


def cmp_value(exp, got, path="v"):
    """exp: model value; got: parsed param. Returns list of mismatch descriptions (empty = equal)."""
    t = exp[0]
    g = got[0]
    if t == "i":
        return [] if (g == "int" and got[1] == exp[1]) else ["%s: expected INTEGER %d, got %r" % (path, exp[1], got)]
    if t == "r":
        if g != "real":
            return ["%s: expected REAL token for %s, got %r" % (path, exp[1], got)]
        return [] if reals_equal(exp[1], got[1]) else ["%s: expected REAL %s, got %s" % (path, exp[1], got[1])]
    if t == "n":
        if g == "int":
            ok = _dec(exp[1]) == Decimal(got[1])
        elif g == "real":
            ok = reals_equal(exp[1], got[1])
        else:
            ok = False
        return [] if ok else ["%s: expected NUMBER %s, got %r" % (path, exp[1], got)]
    if t == "s":
        return [] if (g == "str" and got[1] == exp[1]) else ["%s: expected STRING '%s', got %r" % (path, exp[1], got)]
    if t in ("b", "l"):
        return [] if (g == "enum" and got[1] == exp[1]) else ["%s: expected .%s., got %r" % (path, exp[1], got)]
    if t == "x":
        return [] if (g == "bin" and got[1] == exp[1]) else ['%s: expected BINARY "%s", got %r' % (path, exp[1], got)]
    if t == "e":
        return [] if (g == "enum" and got[1] == exp[1]) else ["%s: expected .%s., got %r" % (path, exp[1], got)]
    if t == "ref":
        return [] if (g == "ref" and got[1] == exp[1]) else ["%s: expected #%d, got %r" % (path, exp[1], got)]
    if t == "null":
        return [] if g == "null" else ["%s: expected $, got %r" % (path, got)]
    if t == "star":
        return [] if g == "star" else ["%s: expected *, got %r" % (path, got)]
    if t == "agg":
        if g != "list":
            return ["%s: expected aggregate, got %r" % (path, got)]
        if len(got[1]) != len(exp[1]):
            return ["%s: expected %d elements, got %d: %r" % (path, len(exp[1]), len(got[1]), got)]
        out = []
        for i, (a, b) in enumerate(zip(exp[1], got[1])):
            out += cmp_value(a, b, "%s[%d]" % (path, i))
        return out
    if t == "typed":
        if g != "typed" or got[1] != exp[1]:
            return ["%s: expected typed %s(...), got %r" % (path, exp[1], got)]
        return cmp_value(exp[2], got[2], path + "." + exp[1])
    return ["%s: unknown expected kind %r" % (path, exp)]


def cmp_instance(exp, got, id_shift=0):
    """exp: model inst; got: parsed inst. Parts compared as a set keyed by keyword."""
    out = []
    if got["id"] != exp["id"] + id_shift:
        out.append("id: expected #%d got #%d" % (exp["id"] + id_shift, got["id"]))
    eparts = {p["ent"].upper(): p["vals"] for p in exp["parts"]}
    gparts = {}
    for kw, params in got["parts"]:
        if kw in gparts:
            out.append("#%d: part %s written twice" % (got["id"], kw))
        gparts[kw] = params
    if bool(got["complex"]) != bool(exp["complex"]):
        out.append("#%d: expected %s mapping" % (exp["id"], "external" if exp["complex"] else "internal"))
    if set(eparts) != set(gparts):
        out.append("#%d: entity keywords expected %s got %s" % (exp["id"], sorted(eparts), sorted(gparts)))
        return out
    for kw in eparts:
        ev, gv = eparts[kw], gparts[kw]
        if len(ev) != len(gv):
            out.append("#%d %s: expected %d parameters got %d" % (exp["id"], kw, len(ev), len(gv)))
            continue
        for i, (a, b) in enumerate(zip(ev, gv)):
            a2 = shift_refs(a, id_shift) if id_shift else a
            out += cmp_value(a2, b, "#%d %s[%d]" % (exp["id"], kw, i))
    return out


def shift_refs(v, d):
    t = v[0]
    if t == "ref":
        return ["ref", v[1] + d]
    if t == "agg":
        return ["agg", [shift_refs(x, d) for x in v[1]]]
    if t == "typed":
        return ["typed", v[1], shift_refs(v[2], d)]
    return v


def cmp_header(h, got_header):
    """h: model header; got_header: parsed [(KW,[params])]"""
    out = []
    d = {kw: params for kw, params in got_header}

    def strs(lst):
        return ["agg", [["s", x] for x in lst]]
    exp = {
        "FILE_DESCRIPTION": [strs(h["description"]), ["s", h["level"]]],
        "FILE_NAME": [["s", h["name"]], None, strs(h["authors"]), strs(h["orgs"]), ["s", h["pre"]], ["s", h["orig"]], ["s", h["auth"]]],
        "FILE_SCHEMA": [strs([h["schema"]])],
    }
    for kw, ev in exp.items():
        if kw not in d:
            out.append("header: %s missing" % kw)
            continue
        gv = d[kw]
        if len(gv) != len(ev):
            out.append("header %s: expected %d parameters, got %d" % (kw, len(ev), len(gv)))
            continue
        for i, (a, b) in enumerate(zip(ev, gv)):
            if a is None:
                if b[0] != "str":
                    out.append("header FILE_NAME time stamp is not a string: %r" % (b,))
                continue
            out += cmp_value(a, b, "header %s[%d]" % (kw, i))
    extra = [kw for kw in d if kw not in exp]
    if extra:
        out.append("header: unexpected records %s" % extra)
    return out


def cmp_population(pop, parsed, check_header=True):
    out = []
    if check_header:
        out += cmp_header(pop["header"], parsed["header"])
    ei, gi = pop["instances"], parsed["data"]
    if [x["id"] for x in ei] != [x["id"] for x in gi]:
        out.append("instance ids/order: expected %s got %s" % ([x["id"] for x in ei], [x["id"] for x in gi]))
        gd = {x["id"]: x for x in gi}
        for e in ei:
            if e["id"] in gd:
                out += cmp_instance(e, gd[e["id"]])
        return out
    for e, g in zip(ei, gi):
        out += cmp_instance(e, g)
    return out


# ------------------------------------------------------------------------------------------------
# features of a population (non-triviality rules / distribution)

def features(pop):
    f = set()
    ids_seen = set()
    for inst in pop["instances"]:
        if inst["complex"]:
            f.add("complex-instance")
        for r in inst_refs(inst):
            if r not in ids_seen and r != inst["id"]:
                f.add("forward-ref")
            if r == inst["id"]:
                f.add("self-ref")
        ids_seen.add(inst["id"])
        for p in inst["parts"]:
            for v in p["vals"]:
                _feat(v, f, 0)
    return f


def _feat(v, f, depth):
    t = v[0]
    if t == "agg":
        if len(v[1]) >= 2:
            f.add("aggregate>=2")
        if depth >= 1:
            f.add("nested-aggregate")
        if not v[1]:
            f.add("empty-aggregate")
        for x in v[1]:
            _feat(x, f, depth + 1)
    elif t == "typed":
        f.add("typed-select")
        _feat(v[2], f, depth)
    elif t == "s":
        if "\\" in v[1] or "''" in v[1]:
            f.add("string-escape")
    elif t in ("r", "n"):
        if "E" in v[1]:
            f.add("real-exponent")
    elif t == "star":
        f.add("star")
    elif t == "null":
        f.add("null")
    elif t == "ref":
        f.add("ref")
    elif t == "x":
        f.add("binary")
    elif t == "e":
        f.add("enum")


def has_nested_select_complex_ref(sch, pop):
    """Shape of finding F43: a select-typed value that is a reference to a complex instance whose matching entity leaf
    is not a direct member of the (outermost) select."""
    cx = {i["id"]: [p["ent"].lower() for p in i["parts"]] for i in pop["instances"] if i["complex"]}
    if not cx:
        return False

    def walk(tr, v):
        if v[0] in ("null", "star"):
            return False
        r = sch.resolve(tr)
        if r[0] == "agg" and v[0] == "agg":
            return any(walk(r[1]["of"], x) for x in v[1])
        if r[0] == "select":
            if v[0] == "ref" and v[1] in cx:
                direct = sch.select_direct_members(r[1])
                return not any(sch.is_entity(d) and d in sch.closure(cx[v[1]]) for d in direct)
            if v[0] == "typed":
                return walk({"k": "named", "name": v[1].lower()}, v[2])
        return False
    for inst in pop["instances"]:
        mem = [p["ent"] for p in inst["parts"]]
        for part in inst["parts"]:
            slots = sch.part_slots(part["ent"], mem) if inst["complex"] else sch.p21_slots(part["ent"])
            for sl, v in zip(slots, part["vals"]):
                if walk(sl["type"], v):
                    return True
    return False
