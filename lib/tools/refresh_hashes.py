"""After a history rewrite in /repo: maps the commit hashes of 'fixed' entries in known_findings.jsonl to the commits on HEAD
with the same subject line (old objects are still readable)."""
import json, os, subprocess
V = os.path.dirname(os.path.dirname(os.path.dirname(os.path.abspath(__file__))))
def git(*a):
    return subprocess.run(["git", "-C", "/repo"] + list(a), stdout=subprocess.PIPE, stderr=subprocess.DEVNULL).stdout.decode().strip()
head = {}
for l in git("log", "--format=%h\t%s").split("\n"):
    h, s = l.split("\t", 1)
    head.setdefault(s, h)
on_head = set(l for l in git("log", "--format=%h").split("\n"))
out, changed, bad = [], 0, 0
for l in open(os.path.join(V, "known_findings.jsonl")):
    if l.strip() and not l.startswith("#"):
        d = json.loads(l)
        if d.get("status") == "fixed":
            new = []
            for h in d["commit"].split():
                full = git("rev-parse", "--short=8", h)
                if full in on_head or h in on_head:
                    new.append(h); continue
                subj = git("log", "-1", "--format=%s", h)
                if subj in head:
                    new.append(head[subj]); changed += 1
                else:
                    new.append(h); bad += 1; print("NOT FOUND", h, subj)
            d["commit"] = " ".join(new)
            l = json.dumps(d) + "\n"
    out.append(l)
open(os.path.join(V, "known_findings.jsonl"), "w").write("".join(out))
print("remapped", changed, "unresolved", bad)
