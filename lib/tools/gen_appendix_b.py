"""Rewrites the table of DESIGN.md Appendix B from known_findings.jsonl (the source of truth)."""
import json, os, re
V = os.path.dirname(os.path.dirname(os.path.dirname(os.path.abspath(__file__))))
ents = [json.loads(l) for l in open(os.path.join(V, "known_findings.jsonl")) if l.strip() and not l.startswith("#")]
rows = {}
order = []
for e in ents:
    k = (e["id"], e["status"], e.get("commit", ""))
    if k not in rows:
        rows[k] = {"props": [], "what": [], "sigs": []}
        order.append(k)
    r = rows[k]
    if e["property"] not in r["props"]:
        r["props"].append(e["property"])
    if e["what"] not in r["what"]:
        r["what"].append(e["what"])
    if e.get("sig") and e["sig"] not in r["sigs"]:
        r["sigs"].append(e["sig"])
def num(k):
    m = re.match(r"F(\d+)", k[0]); return (int(m.group(1)) if m else 999, k[0])
lines = ["| id | check(s) | what fails | disposition |", "|---|---|---|---|"]
for k in sorted(order, key=num):
    r = rows[k]
    what = " // ".join(r["what"]).replace("|", "\\|")
    if k[1] == "fixed":
        disp = "fixed in /repo: " + k[2]
    else:
        disp = "OPEN (listed; signature(s): " + ", ".join("`%s`" % s.replace("|", "\\|") for s in r["sigs"]) + ")"
    lines.append("| %s | %s | %s | %s |" % (k[0], ",".join(r["props"]), what, disp))
p = os.path.join(V, "DESIGN.md")
s = open(p).read()
a = s.index("<!-- APPENDIX-B-TABLE-BEGIN -->")
b = s.index("<!-- APPENDIX-B-TABLE-END -->")
s = s[:a] + "<!-- APPENDIX-B-TABLE-BEGIN -->\n" + "\n".join(lines) + "\n" + s[b:]
open(p, "w").write(s)
print(len(lines) - 2, "rows")
