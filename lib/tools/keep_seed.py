"""usage: keep_seed.py <seed worktree> <id> <property> <needs> <caught_by> <ran>  -> copies SEED/ into /verif/seeded/<id>/ and writes meta.json"""
import sys, os, shutil, json
wt, sid, prop, needs, caught, ran = sys.argv[1:7]
dst = os.path.join(os.path.dirname(os.path.dirname(os.path.dirname(os.path.abspath(__file__)))), "seeded", sid)
shutil.rmtree(dst, ignore_errors=True)
os.makedirs(dst)
shutil.copy(os.path.join(wt, "SEED", "patch.diff"), os.path.join(dst, "patch.diff"))
if os.path.isdir(os.path.join(wt, "SEED", "demo")):
    shutil.copytree(os.path.join(wt, "SEED", "demo"), os.path.join(dst, "demo"))
if os.path.exists(os.path.join(wt, "SEED", "README.md")):
    shutil.copy(os.path.join(wt, "SEED", "README.md"), os.path.join(dst, "README.md"))
json.dump({"id": sid, "breaks_property": prop, "needs_to_manifest": needs, "caught_by": caught, "what_was_run": ran,
           "origin": "sub-agent given only the property text and a scratch worktree"}, open(os.path.join(dst, "meta.json"), "w"), indent=1)
print(dst)
