"""usage: try.py <libdir> <SCHEMA> -- reads instance texts from stdin separated by lines with only '%%'; runs read on each"""
import sys, os, subprocess, re
d, sch = sys.argv[1], sys.argv[2]
HEAD = "ISO-10303-21;\nHEADER;\nFILE_DESCRIPTION(('d'),'2;1');\nFILE_NAME('n','2020-01-01T00:00:00',('a'),('o'),'p','os','auth');\nFILE_SCHEMA(('%s'));\nENDSEC;\nDATA;\n" % sch
TAIL = "ENDSEC;\nEND-ISO-10303-21;\n"
for case in sys.stdin.read().split("\n%%\n"):
    case = case.strip("\n")
    if not case:
        continue
    open(d + "/try.p21", "w").write(HEAD + case + "\n" + TAIL)
    try:
        p = subprocess.run([d + "/p21drv", "roundtrip", d + "/try.p21", d + "/try.o1", d + "/try.o2"], capture_output=True, timeout=8)
    except subprocess.TimeoutExpired:
        print("== %r\n   HANG" % case)
        continue
    out = p.stdout.decode("latin-1")
    m = re.search(r'@@JSON \{"read1":\{"sev":(-?\d+)', out)
    o = open(d + "/try.o1").read() if os.path.exists(d + "/try.o1") else ""
    data = o[o.find("DATA;") + 6:o.find("ENDSEC;", o.find("DATA;"))] if "DATA;" in o else ""
    print("== %r\n   rc=%s sev=%s -> %r" % (case, p.returncode, m.group(1) if m else None, data))
    if m and int(m.group(1)) < 3:
        print("   " + p.stderr.decode("latin-1")[-300:].replace("\n", "\n   "))
