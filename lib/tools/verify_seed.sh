#!/bin/bash
# usage: verify_seed.sh <name> <patch.diff>  -- applies the patch in the scratch worktree /tmp/sc1, rebuilds, runs the
# repository's test suite (without the baseline's always-failing IFC file), writes /tmp/seedverify_<name>.txt, reverts.
name=$1; patch=$2
cd /tmp/sc1 || exit 2
git checkout -q -- . ; git checkout -q --detach $(git -C /repo rev-parse HEAD)
git apply "$patch" || { echo "patch does not apply" > /tmp/seedverify_$name.txt; exit 1; }
( nice cmake --build /tmp/sc1/_build -j 6 > /tmp/seedverify_${name}_build.log 2>&1; echo "build=$?";
  nice ctest --test-dir /tmp/sc1/_build -j6 --timeout 900 -E "Bien-Zenker" 2>&1 | grep -E "tests passed|Failed|\*\*\*" ) > /tmp/seedverify_$name.txt 2>&1
git checkout -q -- .
