#!/bin/bash
# usage: replay_all.sh [Cxx ...]  -- replays every saved violation under /verif/replays against /repo's current tree (4 at a time).
# On a tree where the defects are repaired every replay must pass; replays of open findings may print KNOWN-FINDING.
cd /verif || exit 2
props="$@"
[ -z "$props" ] && props=$(ls replays | sort)
out=/verif/.work/logs/replay_all.txt
: > $out
for p in $props; do
  ls -d replays/$p/*/ 2>/dev/null | while read d; do echo "$p $d"; done
done | xargs -P 4 -L 1 bash -c 'p=$0; d=$1; r=$(VERIF_EVIDENCE_DIR=/tmp/replay_all_ev timeout 900 ./check $p --replay $d 2>&1 | tail -1 | cut -c1-160); case "$r" in *"replay passes"*|*"no disagreement"*|*"KNOWN-FINDING"*) echo "pass $d" ;; *) echo "FAIL $d :: $r" ;; esac' >> $out
echo "$(grep -c '^pass' $out) pass, $(grep -c '^FAIL' $out) fail" | tee -a $out
