#!/bin/bash
# usage: replay_all.sh [Cxx ...]  -- replays every saved violation under /verif/replays against /repo's current tree.
# Replays of one property share a scratch directory, so they run one after the other; four properties run side by side.
# On a tree where the defects are repaired every replay must pass; replays of open findings may print KNOWN-FINDING.
cd /verif || exit 2
props="$@"
[ -z "$props" ] && props=$(ls replays | sort)
out=/verif/.work/logs/replay_all.txt
: > $out
echo $props | tr ' ' '\n' | xargs -P 4 -I{} bash -c 'p={}; for d in replays/$p/*/; do [ -d "$d" ] || continue; d=${d%/}; r=$(VERIF_EVIDENCE_DIR=/tmp/replay_all_ev timeout 900 ./check $p --replay $d 2>&1 | tail -1 | cut -c1-160); sig=$(python3 -c "import json,sys; print(json.load(open(sys.argv[1])).get(\"sig\",\"\"))" $d/meta.json 2>/dev/null); if grep -q "\"status\": *\"open\".*\"sig\": *\"$sig\"" known_findings.jsonl 2>/dev/null && [ -n "$sig" ]; then echo "known $d ($sig)"; continue; fi; case "$r" in *"replay passes"*|*"no disagreement"*|*"KNOWN-FINDING"*|*"-> passes"*|*"passes on the current tree"*) echo "pass $d" ;; *) echo "FAIL $d :: $r" ;; esac; done' >> $out
echo "$(grep -c '^pass' $out) pass, $(grep -c '^known' $out) replays of open findings, $(grep -c '^FAIL' $out) fail" | tee -a $out
