#!/bin/bash
# usage: seed_suite.sh [ids...]  -- for every kept seeded change (or the given ones): git -C /repo apply, run the quick tier of the
# property's check, git -C $R checkout -- .  ; prints caught / MISSED per seed.  Evidence files are not touched (VERIF_EVIDENCE_DIR).
# C08-1 is skipped: since the repair of F59 it no longer changes the reader's verdict (see its meta.json).
# SUITE_REPO (default /repo) names the tree the changes are applied to: a second and third lane can run side by side on scratch
# worktrees of the same commit (SUITE_REPO=/tmp/sc2 SUITE_TAG=b seed_suite.sh ids...), each with its own work directory.
cd /verif || exit 2
R=${SUITE_REPO:-/repo}
TAG=${SUITE_TAG:-}
out=/verif/.work/logs/seed_suite$TAG.txt
if [ "$R" != "/repo" ]; then export VERIF_REPO=$R VERIF_WORK=/tmp/suite_work$TAG; fi
mkdir -p /verif/.work/logs /tmp/seed_suite_ev
: > $out
ids="$@"
[ -z "$ids" ] && ids=$(ls seeded | sort)
for id in $ids; do
  [ "$id" = "C08-1" ] && { echo "$id skipped (masked by the repair of F59)" | tee -a $out; continue; }
  prop=${id%%-*}
  if ! git -C $R apply --check /verif/seeded/$id/patch.diff 2>/dev/null; then echo "$id PATCH-DOES-NOT-APPLY" | tee -a $out; continue; fi
  git -C $R apply /verif/seeded/$id/patch.diff
  s=$(date +%s)
  VERIF_PYRUNTIME=$R/src/exp2python/python VERIF_EVIDENCE_DIR=/tmp/seed_suite_ev$TAG ./check $prop --tier quick > /verif/.work/logs/suite_$id.log 2>&1; rc=$?
  git -C $R checkout -- .
  if grep -q "^VIOLATION property=$prop" /verif/.work/logs/suite_$id.log; then echo "$id caught (rc=$rc, $(( $(date +%s) - s ))s)" | tee -a $out; else echo "$id MISSED (rc=$rc, $(( $(date +%s) - s ))s)" | tee -a $out; fi
done
# replays written while a seeded change was applied do not belong to the unchanged tree
git -C /verif status --short replays | grep '^??' | awk '{print $2}' | while read d; do rm -rf "/verif/$d"; done
git -C $R status --short | grep -v '^??' && echo "WARNING: /repo working tree not clean" | tee -a $out
