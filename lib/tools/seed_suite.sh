#!/bin/bash
# usage: seed_suite.sh [ids...]  -- for every kept seeded change (or the given ones): git -C /repo apply, run the quick tier of the
# property's check, git -C /repo checkout -- .  ; prints caught / MISSED per seed.  Evidence files are not touched (VERIF_EVIDENCE_DIR).
# C08-1 is skipped: since the repair of F59 it no longer changes the reader's verdict (see its meta.json).
cd /verif || exit 2
out=/verif/.work/logs/seed_suite.txt
mkdir -p /verif/.work/logs /tmp/seed_suite_ev
: > $out
ids="$@"
[ -z "$ids" ] && ids=$(ls seeded | sort)
for id in $ids; do
  [ "$id" = "C08-1" ] && { echo "$id skipped (masked by the repair of F59)" | tee -a $out; continue; }
  prop=${id%%-*}
  if ! git -C /repo apply --check /verif/seeded/$id/patch.diff 2>/dev/null; then echo "$id PATCH-DOES-NOT-APPLY" | tee -a $out; continue; fi
  git -C /repo apply /verif/seeded/$id/patch.diff
  s=$(date +%s)
  VERIF_EVIDENCE_DIR=/tmp/seed_suite_ev ./check $prop --tier quick > /verif/.work/logs/suite_$id.log 2>&1; rc=$?
  git -C /repo checkout -- .
  if grep -q "^VIOLATION property=$prop" /verif/.work/logs/suite_$id.log; then echo "$id caught (rc=$rc, $(( $(date +%s) - s ))s)" | tee -a $out; else echo "$id MISSED (rc=$rc, $(( $(date +%s) - s ))s)" | tee -a $out; fi
done
# replays written while a seeded change was applied do not belong to the unchanged tree
git -C /verif status --short replays | grep '^??' | awk '{print $2}' | while read d; do rm -rf "/verif/$d"; done
git -C /repo status --short | grep -v '^??' && echo "WARNING: /repo working tree not clean" | tee -a $out
