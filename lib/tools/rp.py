"""usage: rp.py <replaydir> [outdir]  -> builds the schema of a replay into outdir for manual experiments"""
import sys, os, json
sys.path.insert(0, os.path.join(os.path.dirname(__file__), ".."))
import build, farm, common
d = os.path.abspath(sys.argv[1])
out = os.path.abspath(sys.argv[2] if len(sys.argv) > 2 else os.path.join(common.WORK, "rp"))
build.ensure("plain")
sd = json.load(open(os.path.join(d, "schema.json"))) if os.path.exists(os.path.join(d, "schema.json")) else {}
r = farm._build_one((0, sd, out, "plain", ("p21read", "p21drv"), open(os.path.join(d, "schema.exp")).read()))
print(r["ok"], r.get("exes"), r.get("log", "")[-2000:])
