"""Regenerates /verif/MANIFEST.json from the table below (run after adding a check)."""
import json
import os

VERIF = os.path.dirname(os.path.dirname(os.path.abspath(__file__)))

CHECKS = {
    "C01": dict(
        level="exploration", ref="DESIGN.md section 4 C01",
        technique="property-based testing (Hypothesis): generated schema x population x layout, round-trip oracle against an independent Part 21 parser and the generator's model",
        text="Generated EXPRESS schemas are compiled with the tree's exp2cxx; generated conforming populations are read and written by the real library; an independent Part 21 parser maps the written bytes back to the generator's model (two-sided equality, reals to 15 digits) and the second write must be byte-identical. Search, not proof: held on N generated cases.",
        note="Trusts: the schema/population generators produce only valid schemas / conforming files (validated by check-express and by the independent parser), the reference attribute order of ISO 10303-21 11.2.5.2 in lib/expmodel.py. Open finding F20 (comments inside an instance) is excluded by construction and probed on every run."),
    "C02": dict(
        level="exploration", ref="DESIGN.md section 4 C02",
        technique="property-based testing (Hypothesis-generated schemas): compile everything exp2cxx emits, dump the run-time dictionary through its public getters and compare two-sided with the schema model (reference attribute order of ISO 10303-21 11.2.5.2)",
        text="Every generated schema is translated by the tree's exp2cxx, compiled and linked (a compile error of generated code is a violation), and the registry dump - entities with supertypes/subtypes/abstract flag/attributes in declaration order (explicit, redeclared, derived, inverse; name, optionality, type incl. aggregate bounds and flags), named types (underlying type, enumeration items in order, select members, aggregate kind/bounds/flags) and the attribute list of a fresh instance of every entity - must equal the model, nothing missing and nothing extra.",
        note="Accessor/mutator pairs are discovered from the generated headers and round-tripped for INTEGER/REAL/STRING/BOOLEAN/LOGICAL/BINARY/enumeration/entity-reference attributes (aggregate- and select-valued pairs are counted, not exercised). Open findings F22, F38, F48, F89 are matched by signature / fixed probes. The fixed zoo schema (lib/zoo.py) is explored in every run, and so is the as-found schema of the repaired defect F91 (c02.REGRESSION: a shape the generator reached with one seed in eight); identifiers include runs of underscores."),
    "C03": dict(
        level="fault_enumeration", ref="DESIGN.md section 4 C03",
        technique="property-based testing (Hypothesis) with exhaustive enumeration of single faults (class x attribute occurrence x instance position) per generated conforming population; oracle: severity/exit status threshold + confinement against the generator's model",
        text="Every applicable single fault of the statement's classes is applied in turn at every instance/part/attribute position of generated conforming populations; the real reader must end with severity <= INCOMPLETE and p21read must exit non-zero, and every other instance (not referring to the faulted one) must still serialise to its model value.",
        note="Faults are generated only where the result is certainly outside ISO 10303-21 or the schema (table WRONG in lib/checks/c03.py), also inside typed select values (wrong literal kind for the named member, directly or through nested selects; defined type outside the select list). Open finding F83 (reference that violates only a re-declaration brought along by another part of a complex instance) is its own fault class. For unterminated records confinement is asserted only for earlier instances. Open finding F46 (recovery not string aware) is excluded by construction (strings without delimiters in the main campaign, probes with them). Layout noise is white space only."),
    "C04": dict(
        level="fault_enumeration", ref="DESIGN.md section 4 C04",
        technique="property-based testing (Hypothesis-seeded grammar-directed EXPRESS generators lib/explang.py + lib/expgen.py) with single-fault mutation templates of the statement's fault classes (lib/mutate_exp.py) spliced at drawn declaration positions; differential oracle over check-express, exppp (two modes), exp2cxx, exp2python + verdict/exit-status/diagnostic rules from the statement",
        text="Valid schemas (valid by construction) must be accepted by all four tools with exit 0 and no ERROR diagnostic; every single-fault mutant of the listed classes (undefined type/supertype/subtype/schema/function/attribute, duplicate declaration, subtype and select cycles, subtype not listed, inherited attribute redeclared, bad INVERSE) and certainly-ungrammatical edits must be rejected by all of them with >= 1 ERROR diagnostic, non-zero status, no success banner; for every normally ended run status != 0 exactly when an ERROR was printed. Severities are hard-coded in the check, not read from the tree.",
        note="Non-termination is judged on CPU time, a wall-clock hit alone is inconclusive. Signals on fault classes the statement does not list are counted only (C06 owns them). The unitary schemas are used for the differential part and the status rule only."),
    "C05": dict(
        level="exploration", ref="DESIGN.md section 4 C05",
        technique="fuzzing, three engines on clang ASan+UBSan builds: (1) Hypothesis-driven grammar-aware mutation campaign (lib/mutate_p21.py, 24 mutators incl. stretching to 10^5 characters, nesting to 10^4, truncation at every offset) over generated conforming populations and schema libraries through the read-then-write driver; (2) coverage-guided libFuzzer target harness/fuzz_p21.cc with a token-level custom mutator and the oracle inside the target; (3) exhaustive enumeration of all strings up to length L over the 25-character Part 21 punctuation alphabet per attribute kind (harness/attr_enum.cc); plus a CPU scaling probe n..8n",
        text="Every mutant is read and then written by the sanitized driver: any sanitizer report, signal, abort, uncaught exception, exit status other than ordinary, severity outside the enumeration, CPU time above 20 s + 2 us/byte (confirmed in three further runs) or super-linear growth on all doublings in two series is a violation. Failures are bucketed by root cause (sanitizer kind @ innermost stepcode frame), minimised token-wise, and saved under corpus/c05, which is replayed first on every run.",
        note="Not asserted: which severity a malformed file gets, validity of the written file, leaks (the library leaks on every read; ASan leak detection off). Open finding F70 (instance ids >= 2^31-1 overflow InstMgr::NextFileId) is excluded by construction (counted) and its corpus input is replayed every run. F39 (-fsanitize=function on generated creators) is probed once and only then masked."),
    "C06": dict(
        level="exploration", ref="DESIGN.md section 4 C06",
        technique="fuzzing by generation + token-/byte-level mutation (lib/mutate_exp.py; Hypothesis-seeded) through subprocesses of the clang ASan+UBSan builds of check-express, exppp, exp2cxx, exp2python; pathological lexical shapes from the statement (10^2..10^5 character remarks/literals, 1..200-deep nesting, NULs, bytes >= 0x80, no final newline); the 17 shipped schemas unchanged; CPU-time ceiling and n..8n scaling probe",
        text="Each case = (bytes, tool, options) run once as a subprocess of the sanitized binary: no sanitizer report, no signal, exit 0, or exit 1..2 with at least one diagnostic line; CPU time below 20 s + 40 us/byte; captured output below 48 MB. Coverage guidance is not used: the tools call exit() deep inside the library and keep parser state in globals, so an in-process target would leak state between inputs (said in the evidence).",
        note="Input classes: valid, token mutants, byte mutants, shipped-schema mutants, stretched lexical shapes, reference rings of length 1-3 (constants, derived attributes, renamed / aggregate / select types - also selects listing each other directly with outer selects reaching the ring -, functions, supertypes, interface clauses, INCLUDE of the file itself), semantic single-fault templates, exppp -l sweep. Open findings F71-F74 (fixed-size formatting/name buffers that need > 8 kB identifiers or > 6000-character item lists; assert on an entity name longer than a file name) are excluded by construction with one probe per worker. Buckets = sanitizer kind + innermost repository frame (gdb fallback when the tool's own handler turns the fault into abort())."),
    "C12": dict(
        level="exploration", ref="DESIGN.md section 4 C12",
        technique="property-based testing (Hypothesis): generated EXPRESS files (non-literal aggregate bounds: CONSTANTs, expressions, function calls, attributes) and the shipped schemas x drawn run configurations {ASLR on/off (setarch -R), cwd depth, absolute/relative/dot-dot/symlink input path, environment size, LC_ALL, TZ, dirty output directory, earlier run of another schema}; metamorphic oracle: byte-identical output trees and equal exit status over 4 runs per tool",
        text="exp2cxx, exp2python, exppp and schema_scanner are each run 4 times on the same bytes (baseline, plain repeat with a fresh randomised address space, two drawn configurations); the recursive byte content of the output tree and the exit status must be equal in all runs. The two places where the scanner writes the path it was given by design are normalised; everything else is compared byte for byte.",
        note="stdout/stderr diagnostics are not compared. The scan for >= 7-digit integers that do not occur in the schema text is supporting evidence only. The thorough tier runs all 17 shipped schemas x 4 tools."),
    "C17": dict(
        level="exploration", ref="DESIGN.md section 4 C17",
        technique="property-based testing (Hypothesis): generated single- and multi-schema EXPRESS files with every defined-type shape, case noise and near-colliding names (lib/c17gen.py); differential two-sided set comparison between the CMakeLists.txt the scanner emits and the files exp2cxx creates, run exactly as the build runs them",
        text="In an empty directory schema_scanner is run on the file; for every directory it prints, exp2cxx is run there on the path named in SCHEMA_TARGETS(); one distinct directory per schema, directory name == PROJECT() == prefix of all file lists, every listed file exists, and the listed entity/type files equal the created ones (two-sided); everything else created is a listed fixed file or a unity header.",
        note="Open finding F75: for multi-schema files whose schemas depend on each other exp2cxx writes numbered pass files (SdaiA_1.h ...) that the scanner does not list - only the mismatch of the fixed per-schema files is attributed to it; the per-entity / per-type sets are asserted for those files too. Identifiers of 60..160 characters in 12 % of the schemas. A timeout is inconclusive, never a verdict; two declarations mapping to the same file name are counted, not failed (the statement says 'set')."),
    "C18": dict(
        level="exploration", ref="DESIGN.md section 4 C18",
        technique="property-based testing (Hypothesis): generated single-schema files incl. identifiers that are Python keywords/builtins, multiple inheritance, redeclared/derived/inverse attributes; oracle = py_compile + import against the bundled runtime in a subprocess + introspection compared two-sided with the schema model (bases in declaration order, constructor parameters in Part 21 order, one definition per defined type)",
        text="exp2python must exit 0 and write exactly one module that compiles and imports with PYTHONPATH=<repo>/src/exp2python/python; one class per entity with __bases__ == supertypes in declaration order and __init__ parameters == expmodel.p21_slots; every defined type with its kind, underlying type, enumeration items, select members, aggregate bounds; the module defines nothing else.",
        note="Open findings F76 (Python keywords other than class/pass not mangled), F77 (diamond: inherited parameters repeated), F78 (supertypes re-sorted by chain length), F79 (redeclared attribute gets an extra parameter) are excluded by construction (keyword identifiers are renamed) with ~8% probes classified by signature. Bases are compared as a set when the declared order is not a valid Python base order."),
    "C20": dict(
        level="fault_enumeration", ref="DESIGN.md section 4 C20",
        technique="property-based testing (Hypothesis-seeded generators) with one single-fault template per argument-carrying entry of LibErrors[] (parsed from the tree under test) and generator-chosen offending texts; oracle: arguments extracted with the table's own format string must equal the generator's texts and occur in the input; metamorphic oracle for -i/-w: stderr under a switch sequence == stderr of -w all filtered by the switch state, same exit status",
        text="For every reachable argument-carrying diagnostic a mutant is generated in which the offending identifier/character/count is chosen by the generator; check-express must attribute every located diagnostic to the input's own (generator-chosen) file name, print the expected entry, and quote exactly the chosen text - never an empty or foreign string. For every warning class switched on and off (sequences of -i/-w) the printed lines must be the baseline filtered by class and the verdict unchanged; unknown class names give the usage error, never a signal.",
        note="Every template case is run again with the imported schemas in files of their own (found through EXPRESS_PATH): the expected diagnostic must be printed and every located diagnostic must be attributed to a file that contains the text it quotes. Line numbers are not asserted (not in the statement). 44 of 62 argument-carrying entries are triggered; the other 18 are listed in the evidence with the reason (dead code, no call site, environment-only). The default warning state is read off the run without switches, not asserted."),
    "C07": dict(
        level="exploration", ref="DESIGN.md section 4 C07",
        technique="property-based testing: grammar-directed EXPRESS generator (lib/explang.py, Hypothesis) x exppp option sets; oracle = independent tokenizer + declaration splitter + Pratt expression parser (lib/exptok.py, lib/expparse.py): output accepted by check-express, declaration maps equal in canonical fully parenthesised form (two-sided), reprint token-stable, token streams equal across line lengths",
        text="Generated schemas (every operator, literal kind, statement kind, repetition initialisers, QUERY, labelled and unlabelled rules, remarks, multi-schema USE/REFERENCE) and the shipped schemas are pretty-printed with several -l/-t/-c settings; the output must be accepted by check-express, must declare exactly the same declarations with token-for-token the same expressions and statements up to redundant parentheses and literal splitting (compared through an independent ISO 10303-11 parser), and printing the output again must change nothing but white space.",
        note="Neutral normalisations are listed with their ISO 10303-11 clause in lib/expparse.py (class Norm). Open findings F60 (AND/ANDOR precedence in the grammar), F61 (renamed import printed under the original name), F62 (f printed as f(  )) are excluded by construction via explang's `avoid` features and probed with hand-written shapes."),
    "C08": dict(
        level="exploration", ref="DESIGN.md section 4 C08",
        technique="property-based testing (Hypothesis-generated inheritance graphs and supertype expressions) with exhaustive enumeration of all 2^n-1 entity subsets per graph x two part orders; oracle = two independent legality predicates (lib/expmodel.legal_set and the constructive ISO 10303-11 Annex B enumeration in lib/complexref.py) that must agree",
        text="For every generated graph all non-empty subsets are written as externally mapped instances (twice, with permuted parts and shuffled instances) and read by the real library; an instance must be created iff both reference predicates call the set legal, refused instances must not disturb the others, created instances must serialise to the model, and part order must not matter. Exhaustive per graph over subsets.",
        note="Graphs on which the two references disagree (redundant supertype corners, ~3%) are excluded and counted. Singletons are executed but not asserted (ISO 10303-21 requires internal mapping for one part). Besides drawn graphs: every enumerated expression shape (depth <= 2, <= 4 operands), each also with an operand that is a subtype of a sibling of the carrying entity, and an enumerated family of two root hierarchies joined by a multiply inheriting entity (315 graphs; a third per quick run). No open finding (F59 was repaired; the shape classification code is inert). Open finding F93 (an ABSTRACT entity without any subtype can be instantiated in external mapping) lies outside the generators by construction - they make only entities with subtypes abstract - and is probed on every run with its fixed minimal input."),
    "C09": dict(
        level="exploration", ref="DESIGN.md section 4 C09",
        technique="exhaustive enumeration of short token strings per literal kind x delimiter context + rapidcheck random long tokens and writer grid, in-process against DFA recognisers transcribed from the Part 21 BNF and strtod/128-bit integer value functions",
        text="Every string up to a length bound over each kind's alphabet is fed to the attribute reader and to the instance reader of a fixture schema library; verdict, value and stream position are compared with recognisers written from the BNF. The writer is checked on a grid of integers near 2^k/10^k and reals with exponents -300..300 (token in grammar, reads back equal). Exhaustive for the enumerated sub-space, sampled beyond it.",
        note="Closed leniency table (NUMBER without decimal point / lower-case e; enumeration letter case) justified from reader source, listed in the evidence assumptions. Out-of-grammar STRING/BINARY bodies that are stored verbatim are counted, not asserted. Open finding F30 (stray '/' or '\\' swallowed by the token separator) is matched by signature."),
    "C10": dict(
        level="exploration", ref="DESIGN.md section 4 C10",
        technique="property-based testing (Hypothesis): generated schema x population (cycles, complex instances, '#'/'('/';' inside strings and comments) x load order; differential oracle lazy loader vs eager reader vs the generator's model",
        text="The lazy loader's index, forward/reverse reference tables (multisets), transitive dependency sets and the serialisation of instances loaded in a drawn order with repetitions are compared with the eager reader and with the model of the generated population.",
        note="Cases where the eager reader itself fails on the conforming file are excluded and counted (they are C01/C08 violations). Keywords of complex instances in the index are not asserted (the loader records them under the empty name). Comments inside instances are excluded (finding F20)."),
    "C11": dict(
        level="exploration", ref="DESIGN.md section 4 C11",
        technique="property-based testing (Hypothesis): INVERSE-heavy generated schemas x populations x loaded instance; oracle = referrer sets computed from the generator's model",
        text="For each drawn instance x the lazy loader loads x in a fresh process and every inverse attribute of x (own and inherited) must hold exactly the model's referrers (type E or subtype, through attribute a, directly or as aggregate element), none missing/extra/twice.",
        note="Populations in which a single-valued inverse has > 1 referrer violate the schema and are not asserted. Open finding F40: complex instances are invisible to the inverse resolution (excluded by construction, probed in ~5% of populations and classified by delta)."),
    "C13": dict(
        level="exploration", ref="DESIGN.md section 4 C13",
        technique="stateful property-based testing (rapidcheck rc::state) + exhaustive enumeration of short command sequences, list/dict reference model, ASan/UBSan build",
        text="Command sequences over the public InstMgr API are executed against the real library and a reference model after every step; all sequences up to a small length are enumerated, long ones are random; run on a plain and a sanitizer build.",
        note="Generator preconditions P1-P8 (documented in harness/instmgr_sm.cc and DESIGN.md) restrict sequences to what real callers do; exact values of automatic ids are not asserted, only freshness/ordering."),
    "C14": dict(
        level="exploration", ref="DESIGN.md section 4 C14",
        technique="property-based testing (Hypothesis): generated schema x 2-3 populations with overlapping ids, model comparison of the appended session under a per-file id offset via an independent Part 21 parser",
        text="ReadExchangeFile + AppendExchangeFile(s) on generated populations whose ids collide by construction; the written session is parsed independently and every instance and every reference of an appended file must equal the model shifted by one common offset larger than all earlier ids.",
        note="Only the existence of one common offset > max earlier id is asserted, not its value. Header merging is not part of the statement and not compared."),
    "C15": dict(
        level="fault_enumeration", ref="DESIGN.md section 4 C15",
        technique="property-based testing (Hypothesis) with exhaustive enumeration of every attribute occurrence x {$, empty} x {strict, lenient} per generated population; decision-table oracle from the statement",
        text="For each generated conforming population every non-derived attribute occurrence (every kind, optional/required, own/inherited, inside complex parts) is nulled in turn and read in both modes by the driver and by p21read; severity, exit status, the written filler and the integrity of all other instances are compared with the statement's table.",
        note="Enumeration is exhaustive per population (quick tier caps repeats of the same class per population, counted). The outcome of an *empty* required value in lenient mode is not fixed by the statement and is executed but not asserted. Defined types over INTEGER/REAL/NUMBER/STRING are classified by their base kind. The 'empty' variant goes to a third of the slots and to every last slot; the as-found case of the repaired defect F92 is judged on every run (c15.REGRESSION). Open findings: F36 (errors of non-head parts of complex instances dropped) and F83 (a re-declaration that drops OPTIONAL, brought along by another part of a complex instance, is ignored) - the latter attributed only when the reader's result is exactly what the declaration alone asks for."),
    "C16": dict(
        level="exploration", ref="DESIGN.md section 4 C16",
        technique="property-based testing (Hypothesis): generated schema x (partially filled) population x state assignment x save/load cycles; model comparison via independent parser of the working-session syntax, state comparison, byte comparison of successive saves",
        text="The real library reads a generated exchange file, assigns drawn states, writes a working-session file, reloads it in a fresh session and saves twice more; the saved text is parsed independently (state letters, values), the reloaded session must hold exactly the non-deleted instances with their saved states and model values, and later saves must be byte-identical (first save minus the deleted records).",
        note="Reloads go into a fresh lenient session, a fresh strict session, or the session the file was saved from (drawn). Only instances nobody references are marked deleted (a reference to a deleted instance is not a conforming reload); partially filled instances use required attributes of kinds without lenient filler, may be saved in any state, and are reloaded in strict and in lenient mode."),
    "C19": dict(
        level="exploration", ref="DESIGN.md section 4 C19",
        technique="stateful property-based testing (Hypothesis RuleBasedStateMachine) + exhaustive enumeration of short operation sequences against a list/multiset/set model",
        text="Every operation on ARRAY/LIST/BAG/SET is mirrored on a Python list/Counter/set model encoding the statement's rules; accept/reject and all size/bound/uniqueness queries are compared after each step.",
        note="A grid of 10080 nested-aggregate combinations (outer kind x inner kind x declared element type x offered inner kind and element type) checks the element type where it is itself an aggregate. LIST index operations are only issued where the two readings of 'declared bounds' (ISO sizes vs. this runtime's index range) agree; see DESIGN.md C19 calibration."),
}

NOT_APPLICABLE = {}


def main():
    props = [json.loads(l)["id"] for l in open(os.path.join(VERIF, "properties.jsonl"))]
    checks = []
    for pid in props:
        c = CHECKS.get(pid)
        if not c:
            continue
        checks.append({
            "property_id": pid,
            "quick_cmd": "./check %s --tier quick" % pid,
            "thorough_cmd": "./check %s --tier thorough" % pid,
            "evidence_file": "evidence/%s.json" % pid,
            "replay_cmd_template": "./check %s --replay {path}" % pid,
            "engine": c.get("engine", "check"),
            "level_claimed": {"category": c["level"], "text": c["text"], "design_ref": c["ref"]},
            "level_note": c["note"],
            "technique": c["technique"],
        })
    na = []
    for pid in props:
        if pid not in CHECKS:
            na.append({"property_id": pid, "reason": NOT_APPLICABLE.get(pid, "check not built yet in this session (planned, see DESIGN.md section 4); the technique applies")})
    m = {
        "version": 1,
        "setup_cmd": "./setup.sh",
        "hooks": {"guard": "STEPCODE_VERIF", "enable": "all checks build /repo's working tree into /verif/.work/build-<variant> with -DSTEPCODE_VERIF (no guarded hook code exists; the define is reserved)",
                  "baseline_off_cmd": "cmake -G Ninja -S /repo -B /repo/_build -DSC_ENABLE_TESTING=ON -DCMAKE_BUILD_TYPE=RelWithDebInfo && cmake --build /repo/_build && ctest --test-dir /repo/_build -j8 --timeout 900",
                  "source_commits": [], "add_only": True},
        "engines": [
            {"name": "check", "path": "check", "serves_properties": sorted(CHECKS), "kind_free_text": "Python dispatcher (lib/runcheck.py) -> lib/checks/cXX.py; Hypothesis 6.168, rapidcheck, libFuzzer, ASan/UBSan builds of /repo's working tree"}],
        "checks": checks,
        "not_applicable": na,
        "notes": "Every check rebuilds /repo's current working tree into /verif/.work (never /repo/_build). VERIF_SEED selects the pseudo-random exploration; known findings are in known_findings.jsonl.",
    }
    with open(os.path.join(VERIF, "MANIFEST.json"), "w") as f:
        json.dump(m, f, indent=1)
        f.write("\n")


if __name__ == "__main__":
    main()
