"""Grammar-aware mutators for ISO 10303-21 exchange / working-session texts (property C05).

A text (str, one character per byte = latin-1) is cut into tokens whose concatenation is the text again; mutators work on
the token list.  Every mutator is a pure function of (tokens, context, random.Random(r), size class k): all randomness
comes from integers drawn by Hypothesis in the caller, so a case is replayable from its descriptor.

    tokenize(text) -> [tok]                         "".join(tokens) == text, total on any input
    kind(tok) -> ws|comment|string|binary|inst|number|enum|kw|punct
    MUTATORS: {name: fn(toks, ctx, R, k, lim) -> (text, meta) or None}   (None: not applicable to this seed)
    ctx  : dict(entities=[NAMES], others=[texts of other seeds], working=bool)
    lim  : Limits - shapes of open findings that are avoided by construction (lim.hit counts what was avoided)

The classes a mutant belongs to (stretch, nesting, truncation, ...) are returned in meta["cls"].
"""
import re

_TOK = re.compile(r"""
   (?P<ws>[ \t\r\n\f\v]+)
 | (?P<comment>/\*.*?(?:\*/|\Z))
 | (?P<string>'[^']*(?:''[^']*)*(?:'|\Z))
 | (?P<binary>"[^"]*(?:"|\Z))
 | (?P<inst>\#[0-9]+)
 | (?P<number>[+-]?[0-9]+(?:\.[0-9]*)?(?:[Ee][+-]?[0-9]+)?)
 | (?P<enum>\.[A-Za-z_][A-Za-z0-9_]*\.)
 | (?P<kw>[!&]?[A-Za-z_][A-Za-z0-9_\-]*)
 | (?P<punct>.)
""", re.X | re.S)

SIZES = [10 ** 2, 10 ** 3, 10 ** 4, 10 ** 5]          # stretch sizes (characters)
DEPTHS = [10, 100, 1000, 10 ** 4]                      # nesting depths
PUNCT = "(),;'\".$*#=/\\+-Ee019Aa_ \n"                  # the Part 21 punctuation alphabet of the property statement


def tokenize(text):
    return [m.group(0) for m in _TOK.finditer(text)]


def kind(tok):
    m = _TOK.match(tok)
    return m.lastgroup if m and m.end() == len(tok) else "punct"


def _idx(toks, pred):
    return [i for i, t in enumerate(toks) if pred(t)]


def _solid(toks):
    """indexes of non-white-space tokens"""
    return [i for i, t in enumerate(toks) if not t[0] in " \t\r\n\f\v"]


class Limits:
    """Shapes excluded by construction because an OPEN finding covers them.  A mutator asks `lim.cap(name, n)`: the value is
    returned unchanged when the shape is allowed, otherwise None is returned and the avoidance is counted."""

    def __init__(self, caps=None):
        self.caps = dict(caps or {})     # name -> largest allowed value
        self.hit = {}                    # name -> number of avoided cases

    def cap(self, name, n):
        c = self.caps.get(name)
        if c is not None and n > c:
            self.hit[name] = self.hit.get(name, 0) + 1
            return None
        return n


# ------------------------------------------------------------------------------------------------ helpers

def data_start(toks):
    """index of the first token after `DATA ;` (0 when absent)"""
    for i, t in enumerate(toks):
        if t == "DATA":
            j = i + 1
            while j < len(toks) and kind(toks[j]) in ("ws", "comment"):
                j += 1
            if j < len(toks) and toks[j] == ";":
                return j + 1
    return 0


def instances(toks):
    """[(start, end)] token ranges `#id = ... ;` in the data section (end exclusive, includes the ';')"""
    out = []
    i = data_start(toks)
    n = len(toks)
    while i < n:
        if kind(toks[i]) == "inst":
            j = i + 1
            while j < n and kind(toks[j]) in ("ws", "comment"):
                j += 1
            if j < n and toks[j] == "=":
                e = j
                while e < n and toks[e] != ";":
                    e += 1
                out.append((i, min(e + 1, n)))
                i = e + 1
                continue
        i += 1
    return out


def _pick(R, seq):
    return seq[R.randrange(len(seq))]


def _filler(R, n, alphabet):
    if len(alphabet) == 1:
        return alphabet * n
    # a repeated short random word: cheap to build, not a single repeated character
    w = "".join(_pick(R, alphabet) for _ in range(min(n, 37)))
    return (w * (n // len(w) + 1))[:n]


def _join(toks):
    return "".join(toks)


# ------------------------------------------------------------------------------------------------ token mutators

def tok_delete(toks, ctx, R, k, lim):
    s = _solid(toks)
    if not s:
        return None
    t = list(toks)
    for i in sorted(set(_pick(R, s) for _ in range(1 + k % 3)), reverse=True):
        del t[i]
    return _join(t), {"cls": ["token-delete"]}


def tok_dup(toks, ctx, R, k, lim):
    s = _solid(toks)
    if not s:
        return None
    i = _pick(R, s)
    ln = 1 + R.randrange(4) if k % 2 else 1
    times = [1, 2, 10, 100][k % 4]
    t = toks[:i + ln] + toks[i:i + ln] * times + toks[i + ln:]
    return _join(t), {"cls": ["token-duplicate"]}


def tok_swap(toks, ctx, R, k, lim):
    s = _solid(toks)
    if len(s) < 2:
        return None
    i, j = _pick(R, s), _pick(R, s)
    if k % 2 and len(s) > 3:            # neighbours
        p = R.randrange(len(s) - 1)
        i, j = s[p], s[p + 1]
    t = list(toks)
    t[i], t[j] = t[j], t[i]
    return _join(t), {"cls": ["token-swap"]}


def tok_replace(toks, ctx, R, k, lim):
    """replace a token by one of another kind taken from the same file or from the punctuation alphabet"""
    s = _solid(toks)
    if not s:
        return None
    i = _pick(R, s)
    t = list(toks)
    if k % 2:
        t[i] = toks[_pick(R, s)]
    else:
        t[i] = _pick(R, ["$", "*", "()", "(", ")", ",", ";", "'", '"', "#", "=", "/", "\\", ".", "..", ".T.", "#0", "#-1", "-", "+",
                         "E", "1E", "1.E", "0", "''", '""', '"0"', "/*", "*/", "!", "&SCOPE", "ENDSCOPE", "ENDSEC", "DATA", "HEADER",
                         "\\N\\", "\\F\\", "\x00", "\xff", "\t"])
    return _join(t), {"cls": ["token-replace"]}


def byte_noise(toks, ctx, R, k, lim):
    s = _join(toks)
    if not s:
        return None
    b = list(s)
    for _ in range(1 + k):
        p = R.randrange(len(b))
        op = R.randrange(3)
        c = _pick(R, PUNCT) if R.random() < 0.7 else chr(R.randrange(256))
        if op == 0:
            b[p] = c
        elif op == 1:
            b.insert(p, c)
        else:
            del b[p]
            if not b:
                break
    return "".join(b), {"cls": ["byte-noise"]}


# ------------------------------------------------------------------------------------------------ stretching

def _size(k):
    return SIZES[k % len(SIZES)]


def stretch_digits(toks, ctx, R, k, lim):
    c = _idx(toks, lambda t: kind(t) == "number")
    if not c:
        return None
    i = _pick(R, c)
    n = _size(k)
    tok = toks[i]
    where = R.randrange(4)
    digs = _filler(R, n, "0123456789" if R.random() < 0.7 else "9")
    m = re.match(r"([+-]?)([0-9]+)(\.?)([0-9]*)((?:[Ee][+-]?[0-9]+)?)$", tok)
    sign, ip, dot, fp, ex = m.groups()
    if where == 0 or not dot:
        new, w = sign + digs + dot + fp + ex, "integer-part"
    elif where == 1:
        new, w = sign + ip + dot + digs + ex, "fraction"
    elif where == 2:
        new, w = sign + ip + dot + fp + "E" + digs, "exponent"
    else:
        new, w = sign + "0" * n + ip + dot + fp + ex, "leading-zeros"
    if lim.cap("digits", n) is None:
        return None
    t = list(toks)
    t[i] = new
    return _join(t), {"cls": ["stretch", "stretch-digits"], "size": n, "where": w}


def stretch_instid(toks, ctx, R, k, lim):
    c = _idx(toks, lambda t: kind(t) == "inst")
    if not c:
        return None
    i = _pick(R, c)
    n = _size(k)
    if lim.cap("instance-id-digits", n) is None:
        return None
    zeros = (k % 2 == 0)
    if not zeros and lim.cap("instance-id-value", 10 ** 10) is None:      # n random digits: a value far beyond 2^31
        return None
    t = list(toks)
    t[i] = "#" + _filler(R, n, "0" if zeros else "0123456789") + (toks[i][1:] if zeros or k % 3 == 0 else "")
    return _join(t), {"cls": ["stretch", "stretch-instance-id"], "size": n, "where": "leading-zeros" if zeros else "digits"}


def stretch_ident(toks, ctx, R, k, lim):
    c = _idx(toks, lambda t: kind(t) in ("kw", "enum"))
    if not c:
        return None
    i = _pick(R, c)
    n = _size(k)
    tok = toks[i]
    ds = data_start(toks)
    where = ("enum" if kind(tok) == "enum" else "header-keyword" if i < ds else "data-keyword")
    if lim.cap("ident:" + where, n) is None:
        return None
    fill = _filler(R, n, "ABCDEFGHIJKLMNOPQRSTUVWXYZ_0123456789" if k % 2 else "A")
    if kind(tok) == "enum":
        new = "." + tok[1:-1] + fill + "."
    else:
        new = tok + fill if R.random() < 0.7 else "Z" + fill
    t = list(toks)
    t[i] = new
    return _join(t), {"cls": ["stretch", "stretch-identifier"], "size": n, "where": where}


def stretch_string(toks, ctx, R, k, lim):
    c = _idx(toks, lambda t: kind(t) == "string")
    n = _size(k)
    t = list(toks)
    mode = R.randrange(5)
    if mode == 0:
        body, w = _filler(R, n, "abc xyz019_-+=.,;:#()/*"), "plain"
    elif mode == 1:
        body, w = "''" * (n // 2), "quote-pairs"
    elif mode == 2:
        body, w = "\\X2\\" + _filler(R, (n // 4) * 4, "0123456789ABCDEF") + "\\X0\\", "x2-directive"
    elif mode == 3:
        body, w = "\\\\" * (n // 2), "backslashes"
    else:
        body, w = ("\\S\\a\\X\\41\\N\\" * (n // 12 + 1))[:n], "directives"
    ds = data_start(toks)
    if c:
        i = _pick(R, c)
        where = "header" if i < ds else "data"
        if lim.cap("string:" + where, n) is None:
            return None
        closed = toks[i].endswith("'") and len(toks[i]) > 1
        t[i] = "'" + body + ("'" if closed and k % 7 else "")
    else:
        s = _solid(toks)
        if not s:
            return None
        i = _pick(R, s)
        where = "header" if i < ds else "data"
        if lim.cap("string:" + where, n) is None:
            return None
        t[i] = "'" + body + "'"
    return _join(t), {"cls": ["stretch", "stretch-string"], "size": n, "where": where + ":" + w}


def stretch_hex(toks, ctx, R, k, lim):
    c = _idx(toks, lambda t: kind(t) == "binary")
    n = _size(k)
    if lim.cap("hex", n) is None:
        return None
    new = '"' + str(R.randrange(4)) + _filler(R, n, "0123456789ABCDEF") + '"'
    t = list(toks)
    if c:
        t[_pick(R, c)] = new
    else:
        # no BINARY in this seed: put the token where a value stands
        v = _idx(toks, lambda x: kind(x) in ("number", "string", "enum") or x in ("$", "*"))
        v = [i for i in v if i >= data_start(toks)]
        if not v:
            return None
        t[_pick(R, v)] = new
    return _join(t), {"cls": ["stretch", "stretch-hex"], "size": n}


def stretch_comment(toks, ctx, R, k, lim):
    n = _size(k)
    if lim.cap("comment", n) is None:
        return None
    body = _filler(R, n, "abc ;()'#=*/\n" if k % 2 else "*")
    if "*/" in body:
        body = body.replace("*/", "* ")
    pos = R.randrange(len(toks) + 1)
    closed = k % 5 != 0
    t = toks[:pos] + ["/*" + body + ("*/" if closed else "")] + toks[pos:]
    return _join(t), {"cls": ["stretch", "stretch-comment"], "size": n, "where": "closed" if closed else "unterminated"}


def stretch_ws(toks, ctx, R, k, lim):
    n = _size(k)
    pos = R.randrange(len(toks) + 1)
    t = toks[:pos] + [_filler(R, n, " \n\t" if k % 2 else " ")] + toks[pos:]
    return _join(t), {"cls": ["stretch", "stretch-whitespace"], "size": n}


def stretch_list(toks, ctx, R, k, lim):
    """an aggregate / parameter list with 10^2..10^5 elements"""
    c = [i for i in _idx(toks, lambda t: t == "(") if i >= data_start(toks)]
    if not c:
        return None
    n = _size(k) // 2
    i = _pick(R, c)
    elem = _pick(R, ["1", "0.5", "'a'", "$", "*", ".T.", "#1", '"0"', "()", "A(1)", ""])
    if lim.cap("list-elements", n) is None:
        return None
    t = toks[:i + 1] + [(elem + ",") * n] + toks[i + 1:]
    return _join(t), {"cls": ["stretch", "stretch-list"], "size": n, "where": elem}


# ------------------------------------------------------------------------------------------------ parentheses

def nest(toks, ctx, R, k, lim):
    """wrap one value / one parameter list in `depth` pairs of parentheses (balanced)"""
    d = DEPTHS[k % len(DEPTHS)]
    ds = data_start(toks)
    vals = [i for i in _idx(toks, lambda x: kind(x) in ("number", "string", "enum", "inst", "binary") or x in ("$", "*", "(")) if i >= ds and
            not (kind(toks[i]) == "inst" and i + 1 < len(toks) and toks[i + 1].strip() in ("=", ""))]
    where = "data"
    if not vals or R.random() < 0.15:
        vals = [i for i in _idx(toks, lambda x: kind(x) == "string") if i < ds]
        where = "header"
        if not vals:
            return None
    i = _pick(R, vals)
    if lim.cap("nest:" + where, d) is None:
        return None
    mode = R.randrange(3)
    if toks[i] == "(":
        # find the matching ')' on token level
        depth, j = 0, i
        while j < len(toks):
            if toks[j] == "(":
                depth += 1
            elif toks[j] == ")":
                depth -= 1
                if depth == 0:
                    break
            j += 1
        if j >= len(toks):
            j = i
        t = toks[:i] + ["(" * d] + toks[i:j + 1] + [")" * d] + toks[j + 1:]
    elif mode == 0:
        t = toks[:i] + ["(" * d, toks[i], ")" * d] + toks[i + 1:]
    elif mode == 1:
        kw = _pick(R, ctx.get("entities") or ["A"])
        t = toks[:i] + [(kw + "(") * d, toks[i], ")" * d] + toks[i + 1:]      # typed-parameter nesting A(A(A(...)))
        where += ":typed"
    else:
        t = toks[:i] + ["(1,(" * d, toks[i], "))" * d] + toks[i + 1:]                     # nested lists with a sibling element
        where += ":siblings"
    return _join(t), {"cls": ["nesting"], "size": d, "where": where}


def unbalance(toks, ctx, R, k, lim):
    par = _idx(toks, lambda x: x in ("(", ")"))
    t = list(toks)
    mode = k % 5
    if mode == 0 and par:
        del t[_pick(R, par)]
        w = "paren-deleted"
    elif mode == 1:
        t.insert(R.randrange(len(t) + 1), "(")
        w = "open-inserted"
    elif mode == 2:
        t.insert(R.randrange(len(t) + 1), ")")
        w = "close-inserted"
    elif mode == 3:
        d = DEPTHS[R.randrange(len(DEPTHS))]
        if lim.cap("nest:open-only", d) is None:
            return None
        ds = data_start(toks)
        pos = ds + R.randrange(max(1, len(t) - ds))
        t.insert(pos, "(" * d)
        w = "opens-only:%d" % d
    else:
        d = DEPTHS[R.randrange(len(DEPTHS))]
        t.insert(R.randrange(len(t) + 1), ")" * d)
        w = "closes-only:%d" % d
    return _join(t), {"cls": ["paren-imbalance"], "where": w}


# ------------------------------------------------------------------------------------------------ truncation

def truncate(toks, ctx, R, k, lim):
    s = _join(toks)
    if len(s) < 2:
        return None
    cut = R.randrange(len(s))
    return s[:cut], {"cls": ["truncation"], "size": cut}


def truncate_in_token(toks, ctx, R, k, lim):
    """premature EOF inside a string / comment / binary / number / keyword of the data section"""
    ds = data_start(toks)
    c = [i for i in range(ds, len(toks)) if len(toks[i]) > 1 and kind(toks[i]) != "ws"]
    if not c:
        return None
    i = _pick(R, c)
    return _join(toks[:i]) + toks[i][:1 + R.randrange(len(toks[i]) - 1)], {"cls": ["truncation", "truncation-in-token"], "where": kind(toks[i])}


# ------------------------------------------------------------------------------------------------ instances / entities

def splice(toks, ctx, R, k, lim):
    """insert instances taken from another population (other entity types / other schema) or give an instance the keyword of
    another entity"""
    ins = instances(toks)
    t = list(toks)
    mode = k % 3
    if mode == 0 and ins and ctx.get("entities"):
        a, b = _pick(R, ins)
        kws = [i for i in range(a, b) if kind(toks[i]) == "kw"]
        if not kws:
            return None
        t[_pick(R, kws)] = _pick(R, ctx["entities"]).upper()
        return _join(t), {"cls": ["splice", "keyword-of-other-entity"]}
    others = ctx.get("others") or []
    if not others:
        return None
    ot = tokenize(_pick(R, others))
    oi = instances(ot)
    if not oi:
        return None
    a, b = _pick(R, oi)
    pos = _pick(R, ins)[0] if ins else len(t)
    piece = ot[a:b]
    if mode == 1:
        # keep its id: provokes duplicate ids / references to the wrong type
        t = t[:pos] + piece + ["\n"] + t[pos:]
    else:
        piece = ["#%d" % (900000 + R.randrange(1000))] + piece[1:]
        t = t[:pos] + piece + ["\n"] + t[pos:]
    return _join(t), {"cls": ["splice", "instance-of-other-population"]}


def _plist(R, ctx, toks):
    """some parameter list text `( ... )`"""
    ins = instances(toks)
    if ins and R.random() < 0.6:
        a, b = _pick(R, ins)
        seg = toks[a:b]
        op = [i for i, x in enumerate(seg) if x == "("]
        if op:
            i = _pick(R, op)
            depth, j = 0, i
            while j < len(seg):
                if seg[j] == "(":
                    depth += 1
                elif seg[j] == ")":
                    depth -= 1
                    if depth == 0:
                        return _join(seg[i:j + 1])
                j += 1
    return _pick(R, ["()", "($)", "(*)", "(1)", "('x',2)", "(#1)", "((1,2),$)", "(.T.)", "($,$,$,$,$,$)"])


def complex_inst(toks, ctx, R, k, lim):
    """a complex (external mapping) instance built from an arbitrary list of parts: legal or not, repeated, more than 64"""
    ents = ctx.get("entities") or []
    if not ents:
        return None
    nparts = [1, 2, 3, 5, 8, 63, 64, 65, 66, 100, 1000][k % 11] if R.random() < 0.5 else 2 + R.randrange(6)
    if lim.cap("complex-parts", nparts) is None:
        return None
    mode = R.randrange(4)
    names = []
    for q in range(nparts):
        if mode == 0:
            names.append(_pick(R, ents))
        elif mode == 1:
            names.append(ents[q % len(ents)])
        elif mode == 2:
            names.append(ents[0] if q % 2 else _pick(R, ents))       # repeated parts
        else:
            names.append(_pick(R, ents) if R.random() < 0.8 else _pick(R, ["NO_SUCH_ENTITY", "X", "A1", "_", "FILE_NAME"]))
    sep = _pick(R, ["", "", " ", "\n", ",", "/* c */"])
    body = sep.join(n.upper() + _plist(R, ctx, toks) for n in names)
    ins = instances(toks)
    ident = "#%d" % (800000 + R.randrange(1000)) if not ins or R.random() < 0.5 else toks[_pick(R, ins)[0]]
    piece = ident + "=(" + body + ");\n"
    pos = _pick(R, ins)[0] if ins else len(toks)
    t = toks[:pos] + [piece] + toks[pos:]
    return _join(t), {"cls": ["complex-instance", "complex-parts:%s" % ("<=2" if nparts <= 2 else "3-64" if nparts <= 64 else ">64")],
                      "size": nparts}


def scope(toks, ctx, R, k, lim):
    """the (obsolete, still implemented) &SCOPE ... ENDSCOPE construct with nested instances and an export list"""
    ins = instances(toks)
    if not ins:
        return None
    a, b = _pick(R, ins)
    seg = toks[a:b]
    eq = [i for i, x in enumerate(seg) if x == "="]
    if not eq:
        return None
    n_in = [0, 1, 2, 3, 10][k % 5]
    if lim.cap("scope-instances", n_in) is None:
        return None
    inner = []
    for q in range(n_in):
        oa, ob = _pick(R, ins)
        inner.append("#%d" % (700000 + q + 10 * R.randrange(100)) + _join(toks[oa + 1:ob]) + "\n")
    export = _pick(R, ["", "/#1/", "/#1,#2/", "/#1", "/,/", "/#/", "/ #700000 /"])
    end = _pick(R, ["ENDSCOPE", "ENDSCOPE", "ENDSCOPE", "ENDSCOP", "", "&SCOPE"])
    piece = "&SCOPE " + "".join(inner) + end + " " + export + " "
    seg2 = seg[:eq[0] + 1] + [piece] + seg[eq[0] + 1:]
    t = toks[:a] + seg2 + toks[b:]
    return _join(t), {"cls": ["scope-construct"], "size": n_in}


def ids(toks, ctx, R, k, lim):
    """duplicate / huge / negative / zero instance ids and references"""
    c = _idx(toks, lambda t: kind(t) == "inst")
    if not c:
        return None
    t = list(toks)
    i = _pick(R, c)
    new = _pick(R, ["#0", "#2147483646", "#2147483647", "#2147483648", "#4294967296", "#99999999999999999999", "#-1", "#", "# 1", "#1",
                    "#00000000001", toks[_pick(R, c)]])
    m = re.match(r"#(\d+)$", new)
    if m and lim.cap("instance-id-value", int(m.group(1))) is None:
        return None
    t[i] = new
    return _join(t), {"cls": ["instance-ids"]}


def user_defined(toks, ctx, R, k, lim):
    c = _idx(toks, lambda t: kind(t) == "kw" and t.isupper())
    if not c:
        return None
    t = list(toks)
    i = _pick(R, c)
    t[i] = "!" + t[i]
    return _join(t), {"cls": ["user-defined-entity"]}


def header_mut(toks, ctx, R, k, lim):
    """header level: drop / repeat / reorder header entities, foreign keywords, missing section keywords"""
    ds = data_start(toks)
    if ds == 0:
        return None
    head, rest = toks[:ds], toks[ds:]
    semi = [i for i, x in enumerate(head) if x == ";"]
    if len(semi) < 3:
        return None
    mode = k % 6
    j = R.randrange(len(semi) - 1)
    a, b = semi[j] + 1, semi[j + 1] + 1          # one header statement
    if mode == 0:
        head = head[:a] + head[b:]
        w = "statement-deleted"
    elif mode == 1:
        head = head[:b] + head[a:b] * (1 + R.randrange(3)) + head[b:]
        w = "statement-repeated"
    elif mode == 2:
        head = head[:a] + ["FILE_POPULATION('x','y',(#1,#2));", "SECTION_LANGUAGE('a','b');", "SECTION_CONTEXT($,('c'));",
                           "UNKNOWN_HEADER_ENTITY(1,2);", "!USERDEF(1);", "FILE_NAME();", "FILE_SCHEMA(());", "FILE_SCHEMA($);",
                           "FILE_SCHEMA(('a','b'));", "FILE_DESCRIPTION(*,*);"][R.randrange(10):][:1] + head[a:]
        w = "statement-inserted"
    elif mode == 3:
        head = [x for x in head if x != "HEADER"] if R.random() < 0.5 else [("HEADER" if x == "ENDSEC" else x) for x in head]
        w = "section-keyword"
    elif mode == 4:
        head = [x for x in head if x not in ("DATA",)]
        w = "no-data-keyword"
    else:
        head = head[:1] + [_pick(R, ["", "STEP;", "ISO-10303-21;", "STEP_WORKING_SESSION;", "ISO-10303-22;", ";"])] + head[1:]
        w = "file-keyword"
    return _join(head + rest), {"cls": ["header-structure"], "where": w}


# ------------------------------------------------------------------------------------------------ working session

STATE_LETTERS = ["C", "I", "N", "D"]
GARBAGE_PREFIX = ["X", "c", "CC", "DD", "1", "#", "*", "", "CD", "I I", "N/**/", "D ", "E", "S", "\x00", "ND"]


def working(toks, ctx, R, k, lim):
    """turn an exchange text into a working-session text: file keyword + one-letter state prefix per instance
    (C I N D, or garbage).  The caller reads it with ReadWorkingFile."""
    t = list(toks)
    for i, x in enumerate(t):
        if x == "ISO-10303-21":
            t[i] = "STEP_WORKING_SESSION" if k % 7 else "ISO-10303-21"
        elif x == "END-ISO-10303-21":
            t[i] = "END-STEP_WORKING_SESSION" if k % 5 else x
    ins = instances(t)
    garbage = (k % 3 == 0)
    for a, b in reversed(ins):
        if garbage and R.random() < 0.35:
            p = _pick(R, GARBAGE_PREFIX)
        else:
            p = _pick(R, STATE_LETTERS)
        t.insert(a, p)
    return _join(t), {"cls": ["working-session", "working-session:garbage-prefix" if garbage else "working-session:CIND"], "working": True}


MUTATORS = {
    "tok_delete": tok_delete, "tok_dup": tok_dup, "tok_swap": tok_swap, "tok_replace": tok_replace, "byte_noise": byte_noise,
    "stretch_digits": stretch_digits, "stretch_instid": stretch_instid, "stretch_ident": stretch_ident,
    "stretch_string": stretch_string, "stretch_hex": stretch_hex, "stretch_comment": stretch_comment, "stretch_ws": stretch_ws,
    "stretch_list": stretch_list, "nest": nest, "unbalance": unbalance, "truncate": truncate, "truncate_in_token": truncate_in_token,
    "splice": splice, "complex_inst": complex_inst, "scope": scope, "ids": ids, "user_defined": user_defined,
    "header_mut": header_mut, "working": working,
}
# drawing weights (name -> weight); the classes the property names all get a visible share
WEIGHTS = {
    "tok_delete": 8, "tok_dup": 8, "tok_swap": 8, "tok_replace": 8, "byte_noise": 5,
    "stretch_digits": 4, "stretch_instid": 2, "stretch_ident": 4, "stretch_string": 4, "stretch_hex": 3, "stretch_comment": 3,
    "stretch_ws": 1, "stretch_list": 2, "nest": 7, "unbalance": 7, "truncate": 8, "truncate_in_token": 3,
    "splice": 7, "complex_inst": 9, "scope": 3, "ids": 3, "user_defined": 1, "header_mut": 4, "working": 8,
}
NAMES = sorted(MUTATORS)
WEIGHTED = [n for n in NAMES for _ in range(WEIGHTS[n])]
STRETCHERS = ["stretch_digits", "stretch_instid", "stretch_ident", "stretch_string", "stretch_hex", "stretch_comment", "stretch_ws",
              "stretch_list"]


def apply(name, text, ctx, r, k, lim, second=None):
    """Apply mutator `name` (and optionally a second one on the result: (name2, r2, k2)). Returns (text, meta) or None."""
    import random
    res = MUTATORS[name](tokenize(text), ctx, random.Random(r), k, lim)
    if res is None:
        return None
    out, meta = res
    meta = dict(meta)
    meta["mut"] = [name]
    if second is not None:
        n2, r2, k2 = second
        res2 = MUTATORS[n2](tokenize(out), ctx, random.Random(r2), k2, lim)
        if res2 is not None:
            out, m2 = res2
            meta["cls"] = list(meta["cls"]) + [c for c in m2["cls"] if c not in meta["cls"]]
            meta["mut"].append(n2)
            if m2.get("working"):
                meta["working"] = True
    return out, meta


# ------------------------------------------------------------------------------------------------ minimisation

def ddmin(items, test, max_tests=400):
    """Classic delta debugging on a list; test(list) -> True when the failure is still present. Returns a 1-minimal-ish
    sublist within the budget."""
    n = 2
    tests = 0
    items = list(items)
    while len(items) >= 2 and tests < max_tests:
        chunk = max(1, len(items) // n)
        subsets = [items[i:i + chunk] for i in range(0, len(items), chunk)]
        reduced = False
        for i in range(len(subsets)):
            comp = [x for j, s in enumerate(subsets) if j != i for x in s]
            tests += 1
            if comp and test(comp):
                items = comp
                n = max(n - 1, 2)
                reduced = True
                break
            if tests >= max_tests:
                break
        if not reduced:
            if chunk == 1:
                break
            n = min(len(items), n * 2)
    return items


def minimise(text, still_fails, max_tests=400):
    """token-level delta debugging, then shortening of long tokens by bisection"""
    toks = tokenize(text)
    toks = ddmin(toks, lambda t: still_fails("".join(t)), max_tests)
    # shorten long tokens
    budget = max_tests // 2
    for i in range(len(toks)):
        t = toks[i]
        if len(t) <= 8:
            continue
        lo = t
        while len(lo) > 8 and budget > 0:
            budget -= 1
            # keep first and last character, halve the middle
            mid = lo[1:-1]
            cand = lo[0] + mid[:len(mid) // 2] + lo[-1]
            if still_fails("".join(toks[:i] + [cand] + toks[i + 1:])):
                lo = cand
            else:
                break
        # linear refinement between len(lo)/2 and len(lo): bisection on the length
        if len(lo) > 8 and budget > 0:
            good = len(lo)              # fails at this length
            bad = max(2, (len(lo) - 2) // 2 + 2)   # does not fail at this length (approximately)
            while good - bad > 1 and budget > 0:
                budget -= 1
                m = (good + bad) // 2
                cand = lo[0] + lo[1:m - 1] + lo[-1]
                if still_fails("".join(toks[:i] + [cand] + toks[i + 1:])):
                    good, lo = m, cand
                else:
                    bad = m
        toks[i] = lo
    return "".join(toks)
