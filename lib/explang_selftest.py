"""Self-test of the independent EXPRESS tokenizer / parser and of the language-profile generator's rendering:
    python3-vt lib/explang_selftest.py        (< 20 s; exit 0 = all good)
  1. tokenizer: hand written clause-7 cases (nested / multi-line / tail remarks, every literal kind, case folding, longest match)
  2. parser precedence: hand written clause-12 cases (canonical form must be the stated one)
  3. generated files: parse(text) == model(AST) under the default AND the strict normalisation; the same AST rendered
     with two layouts (remarks, white space, letter case) gives the same declaration map; map(S) vs map(S) has no difference
  4. render(parse(x)) is a fixed point for every expression of the generated files
  5. the comparison machinery does see differences (mutants) and the stability token normalisation does what DESIGN says
"""
import os
import re
import sys
import time

sys.path.insert(0, os.path.dirname(os.path.abspath(__file__)))

import exptok          # noqa: E402
import expparse        # noqa: E402
import explang         # noqa: E402
import explang_render  # noqa: E402
import c07_core        # noqa: E402

FAIL = []


def check(cond, what):
    if not cond:
        FAIL.append(what)
        print("FAIL: " + what)


def toks(text):
    return [(k, t) for k, t, _ in exptok.tokenize(text)]


def canon(text, norm=expparse.DEFAULT_NORM):
    c = expparse.Cursor(exptok.tokenize(text), norm)
    e = expparse.expr(c)
    assert c.eof(), text
    return str(e)


def test_tokenizer():
    check(toks("a(* x (* y *) z *)b") == [("id", "a"), ("id", "b")], "nested embedded remark")
    check(toks("a (* line1\n line2 -- not a tail\n *) b") == [("id", "a"), ("id", "b")], "multi-line remark containing --")
    check(toks("a -- tail (* not open\n b") == [("id", "a"), ("id", "b")], "tail remark containing (*")
    check(toks("End_Entity ENTITY entity Foo FOO") == [("kw", "END_ENTITY"), ("kw", "ENTITY"), ("kw", "ENTITY"), ("id", "foo"), ("id", "foo")], "case folding")
    check(toks("'it''s' '' 'a' \"000000C5\" %0101 12 1.5 1. 1.5E3 1.e-3 2E") ==
          [("str", "it's"), ("str", ""), ("str", "a"), ("estr", "000000C5"), ("bin", "0101"), ("int", "12"), ("real", "1.5"), ("real", "1."),
           ("real", "1.5E3"), ("real", "1.e-3"), ("int", "2"), ("id", "e")], "literal kinds")
    check([t for _, t in toks("a:<>:b:=:c:=d<*e<=f<>g>=h**i||j<k>l=m")] ==
          ["a", ":<>:", "b", ":=:", "c", ":=", "d", "<*", "e", "<=", "f", "<>", "g", ">=", "h", "**", "i", "||", "j", "<", "k", ">", "l", "=", "m"], "longest match")
    check(toks("x[1:?]") == [("id", "x"), ("sym", "["), ("int", "1"), ("sym", ":"), ("sym", "?"), ("sym", "]")], "bounds")
    for bad in ("(* open", "'open", '"12"', "a *) b", "a $ b", "%2"):
        try:
            exptok.tokenize(bad)
            check(False, "tokenizer accepted %r" % bad)
        except exptok.TokError:
            pass
    keep = exptok.tokenize("a (* r *) -- t\n b", keep_remarks=True)
    check([k for k, _, _ in keep] == ["id", "remark", "tail", "id"], "keep_remarks")


def test_precedence():
    S = expparse.STRICT_NORM
    cases = [
        ("a + b * c", "(a + (b * c))"), ("a * b + c", "((a * b) + c)"), ("a - b - c", "((a - b) - c)"), ("a / b * c", "((a / b) * c)"),
        ("-a ** 2", "((- a) ** 2)"), ("a ** -b", "(a ** (- b))"), ("a + b < c * d", "((a + b) < (c * d))"),
        ("a OR b AND c", "(a OR (b AND c))"), ("a AND b OR c", "((a AND b) OR c)"), ("a XOR b OR c", "((a XOR b) OR c)"),
        ("NOT a AND b", "((NOT a) AND b)"), ("a = b AND c", "(a = (b AND c))"), ("a AND b = c", "((a AND b) = c)"),
        ("a || b || c", "((a || b) || c)"), ("x IN s + t", "(x IN (s + t))"), ("s LIKE 'a' + 'b'", "(s LIKE ('a' + 'b'))"),
        ("a DIV b MOD c", "((a DIV b) MOD c)"), ("a.b[1]\\c.d", "a.b[1]\\c.d"), ("f(a, b + 1)[2]", "f(a, (b + 1))[2]"),
        ("[a : 2, b]", "[a : 2, b]"), ("QUERY(x <* s | x > 1)", "QUERY(x <* s | (x > 1))"), ("{1 < x <= 5}", "{1 < x <= 5}"),
        ("(a + b) * c", "((a + b) * c)"), ("a + (b + c)", "(a + (b + c))"), ("((a))", "a"), ("a * (b)", "(a * b)"),
        ("SELF\\e.a", "SELF\\e.a"), ("+a", "(+ a)"), ("- 1.5E3", "(- REAL(1.5E3))"), ("? = x", "(? = x)"), ("s[1:2]", "s[1 : 2]"),
        ("SIZEOF(x) - 1 > 0 ", "((SIZEOF(x) - 1) > 0)"), ("a :=: b", "(a :=: b)"), ("'S.E' IN TYPEOF(SELF)", "('S.E' IN TYPEOF(SELF))"),
    ]
    for src, want in cases:
        try:
            got = canon(src, S)
        except Exception as e:
            got = "EXC %r" % e
        check(got == want, "precedence %r -> %r, expected %r" % (src, got, want))
    for bad in ("a < b < c", "a ** b ** c", "- - a", "NOT NOT a", "a = b = c"):
        try:
            canon(bad)
            check(False, "non-ISO chain accepted: " + bad)
        except expparse.Unparsed:
            pass
    D = expparse.DEFAULT_NORM
    check(canon("{1 < x <= 5}", D) == "((1 < x) AND (x <= 5))", "interval normalisation")
    check(canon("+a", D) == "a", "unary plus normalisation")
    check(canon("007 + 1.50", D) == canon("7 + 1.5E0", D), "literal values")
    check(canon("1500", D) != canon("1500.0", D), "INTEGER literal is not a REAL literal")
    check(canon("'ab.' + 'cd' + x", D) == canon("'ab.cd' + x", D), "string chain merge")
    check(canon("x + ('ab.' + 'cd')", D) == canon("x + 'ab.cd'", D), "string chain merge in parentheses")
    check(canon("'ab' + x + 'cd'", D) != canon("'abcd' + x", D), "no merge across an operand")
    check(canon('"000000C5" + \'a\'', D) == "(\"000000C5\" + 'a')", "encoded strings are not merged")


def test_generated(n=110, seed=4711):
    xs = explang.draw_many(seed, n, {"fast": True})
    xs += explang.draw_many(seed + 1, 12, {})
    n_expr = 0
    for x in xs:
        text = x["text"]
        for norm, name in ((expparse.DEFAULT_NORM, "default"), (expparse.STRICT_NORM, "strict")):
            try:
                names, dec = expparse.parse_file(text, norm=norm, robust=False)
            except Exception as e:
                check(False, "generated file not parsed (%s): %r\n%s" % (name, e, text[:300]))
                continue
            exp = explang_render.expected_decls(x["ast"], norm)
            if dec.decls != exp:
                bad = [k for k in exp if dec.decls.get(k) != exp[k]] + [k for k in dec.decls if k not in exp]
                check(False, "parse != model (%s) at %r\n  model : %r\n  parsed: %r" % (name, bad[0], exp.get(bad[0]), dec.decls.get(bad[0])))
            check(names == [s["name"] for s in x["ast"]], "schema names")
        # two layouts of the same AST
        t2 = explang_render.render_file(x["ast"], x["model"]["layout_seed"] + 17, remarks=True)
        t3 = explang_render.render_file(x["ast"], 5, remarks=False)
        _, d1 = expparse.parse_file(text)
        _, d2 = expparse.parse_file(t2)
        _, d3 = expparse.parse_file(t3)
        for da, db, what in ((d1, d1, "S vs S"), (d1, d2, "two layouts"), (d1, d3, "with/without remarks")):
            diffs, ncmp, nskip = c07_core.compare_decls(da, db)
            check(not diffs and nskip == 0 and ncmp == len([k for k in da.decls]), what + ": " + (str(diffs[0]) if diffs else "skipped/compared count"))
        check(c07_core.first_token_diff(c07_core.stable_tokens(text), c07_core.stable_tokens(t2)) is None, "token streams of two layouts")
        # fixed point of render(parse(.)) on every expression (strict: nothing normalised away)
        _, ds = expparse.parse_file(text, norm=expparse.STRICT_NORM)
        exprs = []
        c07_core.walk_exprs(ds.decls, exprs.append)
        for e in exprs[:60]:
            src = re.sub(r"REAL\(([^()]*)\)", r"\1", str(e))
            try:
                again = canon(src, expparse.STRICT_NORM)
            except Exception as ex:
                again = "EXC %r" % ex
            n_expr += 1
            if again != str(e):
                check(False, "render(parse) not a fixed point: %s -> %s" % (e, again))
                break
    return len(xs), n_expr


def test_mutants():
    base = "SCHEMA s; ENTITY e; a, b : INTEGER; DERIVE d : INTEGER := a + b * 2; WHERE w : a > 0; b < 1; END_ENTITY; " \
           "FUNCTION f(x : INTEGER) : INTEGER; CASE x OF 1, 2 : RETURN (1); END_CASE; RETURN ('ab.cd'); END_FUNCTION; END_SCHEMA;"
    muts = [("a + b * 2", "(a + b) * 2"), ("a + b * 2", "a + b * 2.0"), ("w : a > 0", "a > 0"), ("b < 1;", ""), ("a, b : INTEGER", "a : INTEGER"),
            ("1, 2 : RETURN (1);", "1 : RETURN (1); 2 : RETURN (1);"), ("'ab.cd'", "'ab.' + 'cd'"), ("'ab.cd'", "'ab.c'"), ("ENTITY e;", "ENTITY e ABSTRACT SUPERTYPE;"),
            ("x : INTEGER", "x : REAL"), ("RETURN ('ab.cd');", "RETURN ('ab.cd'); RETURN (1);"), ("END_SCHEMA;", "TYPE t = INTEGER; END_TYPE; END_SCHEMA;")]
    _, d0 = expparse.parse_file(base)
    for old, new in muts:
        assert old in base
        _, d1 = expparse.parse_file(base.replace(old, new, 1))
        diffs, _, _ = c07_core.compare_decls(d0, d1)
        if new == "'ab.' + 'cd'":
            check(not diffs, "literal splitting must be accepted: " + (str(diffs[0]) if diffs else ""))
            back, _, _ = c07_core.compare_decls(d1, d0)
            check(bool(back), "literal MERGING (source 'ab.' + 'cd', printed 'ab.cd') must be reported")
        else:
            check(bool(diffs), "mutant not detected: %r -> %r" % (old, new))
    st = c07_core.stable_tokens
    check(st("x := 'A.' + 'B';") == st("x := ( 'A.' + 'B' );") == st("x := 'A.B';"), "stability: string chain rule")
    check(st("x := f( 'A.' + 'B' );") == st("x := f( 'A.B' );") != st("x := f 'A.B';"), "stability: call parentheses kept")
    check(st("x := ( a + b );") != st("x := a + b;"), "stability: no other parentheses ignored")
    check(st("x := 'a' + y + 'b';") != st("x := 'ab' + y;"), "stability: only adjacent literals merge")


def main():
    t0 = time.time()
    test_tokenizer()
    test_precedence()
    nfiles, nexpr = test_generated()
    test_mutants()
    dt = time.time() - t0
    print("explang selftest: %d generated files, %d expressions re-parsed, %d failures, %.1fs" % (nfiles, nexpr, len(FAIL), dt))
    return 1 if FAIL else 0


if __name__ == "__main__":
    sys.exit(main())
